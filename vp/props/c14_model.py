"""C14 correspondence: coq/model/TPE.v (extracted) against PolicySet::tpe on the same inputs.
   Compared per case: decision, reason, bucket of every policy, the residual of every policy (structurally, values
   canonicalised), the consistency verdict of every completion, and on consistent completions the outcome
   (sat / unsat / error) of every model residual against the outcome of the Rust residual policy, and the
   reauthorization decision.
   The model runs with the full extension-function table of coq/model/ExtParse.v (C07)."""
import cedar
import framework as fw
import texpr
from sx import Sym, Str

PROP = "C14"
MODEL_EXT = {"decimal", "lessThan", "lessThanOrEqual", "greaterThan", "greaterThanOrEqual",
             "ip", "isIpv4", "isIpv6", "isLoopback", "isMulticast", "isInRange",
             "datetime", "duration", "offset", "durationSince", "toDate", "toTime",
             "toMilliseconds", "toSeconds", "toMinutes", "toHours", "toDays"}   # ExtParse.call_xfn (C07): the whole table


def ext_fns(t, acc):
    n = t["n"]
    if n[0] == "ext":
        acc.add("::".join("".join(chr(c) for c in comp) for comp in n[1]))
        for a in n[2]:
            ext_fns(a, acc)
        return
    for x in n[1:]:
        if isinstance(x, dict) and "n" in x:
            ext_fns(x, acc)
        elif isinstance(x, list):
            for y in x:
                if isinstance(y, dict) and "n" in y:
                    ext_fns(y, acc)
                elif isinstance(y, list) and len(y) == 2 and isinstance(y[1], dict) and "n" in y[1]:
                    ext_fns(y[1], acc)


def opt(x, f):
    return Sym("none") if x is None else [Sym("some"), f(x)]


def name_sx(ty):
    return [Str(c) for c in ty]


def model_cmd(case, res):
    w, meta = case["world"], case["meta"]
    q = w.q
    pq = [Sym("prequest"), name_sx(q["principal"][1]), opt(q["principal"][2] if meta["p_known"] else None, Str),
          cedar.uid_sx(q["action"]), name_sx(q["resource"][1]), opt(q["resource"][2] if meta["r_known"] else None, Str),
          opt(q["context"] if meta["c_known"] else None, cedar.attrs_sx)]
    by = {e["uid"]: e for e in w.es}
    pes = []
    for u in sorted(meta["ents"]):
        ka, kn, kt = meta["ents"][u]
        e = by[u]
        pes.append([Sym("pentity"), cedar.uid_sx(u), opt(e["attrs"] if ka else None, cedar.attrs_sx),
                    opt(cedar.ancestors_of(w.es, u) if kn else None, lambda l: [cedar.uid_sx(x) for x in l]),
                    opt(e["tags"] if kt else None, cedar.attrs_sx)])
    # PartialEntities::insert_actions: the action entities of the schema are always part of the partial store
    for a in sorted(w.rs["actions"]):
        pes.append([Sym("pentity"), cedar.uid_sx(a), [Sym("some"), []],
                    [Sym("some"), [cedar.uid_sx(x) for x in w.rs["actions"][a]["ancestors"]]], [Sym("some"), []]])
    pols = []
    for i in res["ids"]:
        t = res["typed"][i]
        eff = res["orig_effects"][i]["effect"].lower()
        pols.append([Sym("tpolicy"), Str(i), Sym(eff), texpr.texpr_sx(t["typed"])])
    comps = [[Sym("completion"), cedar.request_sx(q2), cedar.entities_sx(es2)] for q2, es2, _ in case["comps"]]
    return [Sym("tpe"), pq, pes, pols, comps]


def canon_res_rust(j):
    if "c" in j:
        return ("c", cedar.canon_value_from_rust(j["c"]))
    if "e" in j:
        return ("e",)
    n = j["p"]
    k = n[0]
    if k == "var":
        return ("var", n[1])
    if k in ("if", "and", "or"):
        return (k,) + tuple(canon_res_rust(x) for x in n[1:])
    if k == "unop":
        return (k, n[1], canon_res_rust(n[2]))
    if k == "binop":
        return (k, n[1], canon_res_rust(n[2]), canon_res_rust(n[3]))
    if k == "ext":
        return (k, tuple(tuple(c) for c in n[1]), tuple(canon_res_rust(x) for x in n[2]))
    if k in ("getattr", "hasattr"):
        return (k, canon_res_rust(n[1]), tuple(n[2]))
    if k == "like":
        return (k, canon_res_rust(n[1]), tuple(n[2]))
    if k == "is":
        return (k, canon_res_rust(n[1]), tuple(tuple(c) for c in n[2]))
    if k == "set":
        return (k, tuple(canon_res_rust(x) for x in n[1]))
    if k == "record":
        return (k, tuple(sorted((tuple(kk), canon_res_rust(x)) for kk, x in n[1])))
    raise ValueError(j)


def canon_res_model(s):
    k = str(s[0])
    if k == "c":
        return ("c", cedar.canon_value_from_model(s[1]))
    if k == "e":
        return ("e",)
    if k == "var":
        return ("var", str(s[1]))
    if k in ("if", "and", "or"):
        return (k,) + tuple(canon_res_model(x) for x in s[1:])
    if k == "unop":
        return (k, str(s[1]), canon_res_model(s[2]))
    if k == "binop":
        return (k, str(s[1]), canon_res_model(s[2]), canon_res_model(s[3]))
    if k == "ext":
        return (k, tuple(tuple(c) for c in s[1]), tuple(canon_res_model(x) for x in s[2]))
    if k in ("getattr", "hasattr"):
        return (k, canon_res_model(s[1]), tuple(s[2]))
    if k == "like":
        return (k, canon_res_model(s[1]), tuple("star" if str(c) == "star" and not isinstance(c, int) else c for c in s[2]))
    if k == "is":
        return (k, canon_res_model(s[1]), tuple(tuple(c) for c in s[2]))
    if k == "set":
        return (k, tuple(canon_res_model(x) for x in s[1]))
    if k == "record":
        return (k, tuple(sorted((tuple(kv[0]), canon_res_model(kv[1])) for kv in s[1])))
    raise ValueError(s)


def outcome_class(o):
    if isinstance(o, str):
        return o
    return "error"


def correspond(rep, cases, results, driver, stats):
    sel, cmds = [], []
    for c, r in zip(cases, results):
        if "bucket" not in r or not isinstance(r.get("typed"), dict):
            continue
        if any("typed" not in t for t in r["typed"].values()):
            stats["model_skipped"]["typecheck_fail"] = stats["model_skipped"].get("typecheck_fail", 0) + 1
            continue
        fns = set()
        for t in r["typed"].values():
            ext_fns(t["typed"], fns)
        if fns - MODEL_EXT:
            stats["model_skipped"]["extension_function_outside_model"] = \
                stats["model_skipped"].get("extension_function_outside_model", 0) + 1
            continue
        try:
            cmds.append(model_cmd(c, r))
        except cedar.NotExpressible:
            stats["model_skipped"]["not_expressible"] = stats["model_skipped"].get("not_expressible", 0) + 1
            continue
        sel.append((c, r))
    mres = fw.run_model(driver, cmds)
    for (c, r), m, mc in zip(sel, mres, cmds):
        def diff(what, rust, model):
            stats["model_diffs"] = stats.get("model_diffs", 0) + 1
            if stats["model_diffs"] > 6:
                return
            rep.violation({"property": PROP, "kind": "model and implementation differ: " + what,
                           "model_function": "TPE.tpe / interp / tpe_decision / reval (coq/model/TPE.v)",
                           "rust_entry_point": "PolicySet::tpe, TpeResponse::{decision, reason, policies, reauthorize}",
                           "input": c["cmd"], "rust": rust, "model": repr(model),
                           "theorem_whose_transfer_is_lost": "c14_decision_sound, c14_views, c14_interp_sound_partial"},
                          no_failing_input=True)
        if not isinstance(m, list) or not m or str(m[0]) != "tpe_ok":
            k = str(m if not isinstance(m, list) else m[0])
            stats["model_skipped"][k] = stats["model_skipped"].get(k, 0) + 1
            if k != "bad_input":
                diff("model has no response", r.get("decision"), m)
            continue
        stats["model_compared"] += 1
        mdec = {"allow": "Allow", "deny": "Deny", "none": None}[str(m[1])]
        if mdec != r["decision"]:
            diff("decision", r["decision"], mdec)
            continue
        mreason = None if not isinstance(m[2], list) else sorted("".join(chr(x) for x in i) for i in m[2][1])
        if mreason != r["reason"]:
            diff("reason", r["reason"], mreason)
        bad = False
        for ent in m[3]:
            i = "".join(chr(x) for x in ent[0])
            if str(ent[1]) != r["bucket"].get(i):
                diff("bucket of %s" % i, r["bucket"].get(i), str(ent[1]))
                bad = True
                break
            a, b = canon_res_rust(r["residuals"][i]), canon_res_model(ent[2])
            if a != b:
                diff("residual of %s" % i, repr(a), repr(b))
                bad = True
                break
        if bad:
            continue
        mids = ["".join(chr(x) for x in ent[0]) for ent in m[3]]
        for ci, (mc_, rc, cons) in enumerate(zip(m[4], r["completions"], c["consistent"])):
            mcons = str(mc_[0]) == "true"
            if mcons != (cons is None):
                diff("consistency of completion %d" % ci, cons, mcons)
                break
            if cons is not None or "ok" not in rc["reauthorize"]:
                continue
            if {"allow": "Allow", "deny": "Deny"}[str(mc_[1])] != rc["reauthorize"]["ok"]["decision"]:
                diff("reauthorize decision on completion %d" % ci, rc["reauthorize"], str(mc_[1]))
                break
            stop = False
            for i, mo in zip(mids, mc_[2]):
                ro = outcome_class(rc["per_policy"][i]["residual"])
                mo_ = str(mo) if not isinstance(mo, list) else "error"
                if ro != mo_:
                    diff("outcome of the residual of %s on completion %d" % (i, ci), rc["per_policy"][i], mo_)
                    stop = True
                    break
            if stop:
                break
    n = min(24, len(cmds))
    return fw.coq_crosscheck(cmds[:n], mres[:n], PROP) if n else 0
