"""C12 — the formatter is total on parseable input, preserves policies (ids, annotations, scope,
   condition) and comments for every width/indent, is idempotent without comments, and re-formatting
   preserves again.
   Oracle (implementation only): format / re-format through policies_str_to_pretty, structural
   comparison of the parse results (harness fmt_facts, NOT the formatter's soundness_check), comment
   sequences by an independent Python scanner, idempotence, white-space insensitivity (F1).
   Correspondence: (a) the extracted validator `fmt_okb` (Coq, model/Fmt.v) must accept every
   (input, output) pair; (b) the model lexer `clex` against the formatter's own token stream
   (lexer::get_token_stream, logos)."""
import json
import random

import framework as fw
import fmtgen
import gen
from sx import Sym, Str

PROP = "C12"
PROP_FILE = "C12_Fmt"
THEOREMS = ["c12_validator_sound_complete", "c12_comments", "c12_tokens", "c12_tokens_parse",
            "c12_fmt_ok_equivalence", "c12_reformat_preserves", "c12_idem_partial", "c12_lex_join",
            "c12_join_preserves", "c12_tokens_relex", "c12_idem_canonical"]

MANIFEST = {
    "text": "Relational specification of the formatter as a verified validator: a Gallina lexer for the formatter's token regexes with comments as first-class items (model/Fmt.v clex); fmt_ok inp out := both lex to the same token+comment sequence.  Proved for all texts: the executable validator decides fmt_ok; fmt_ok implies equal comment sequences and equal token sequences (hence equal results of any parser that is a function of the tokens); fmt_ok is an equivalence, so re-formatting any number of times preserves; idempotence without comments follows from two facts about the implementation (F1 output depends only on tokens, F2 outputs validate) that are validated on every run (partial).  Tied to /repo by running the extracted validator on every (input, output) pair produced by policies_str_to_pretty over a width x indent grid, by comparing the model lexer with the formatter's logos token stream, and by an implementation-level oracle (structural parse comparison, independent comment scanner, idempotence, respacing, re-formatting).",
    "technique": "proof (Coq) of the validator's consequences + validation of every implementation output + differential lexer correspondence",
    "note": "Totality (formatting succeeds on every parseable input) and the layout chosen by the `pretty` crate are NOT provable in this family: they are explored by the generators only.",
}

WIDTHS = [1, 20, 40, 80, 120, 500]
INDENTS = [0, 1, 2, 4, 8]
GRID = [(w, i) for w in WIDTHS for i in INDENTS]

KEY_TRAILING_COMMA = "C12-trailing-comma-comment-dropped"


# ------------------------------------------------------------------ case generation
def mk_case(kind, parts, eof="", group=None, configs=None, trailing_comma=False):
    text = "".join(parts) + eof
    return {"kind": kind, "parts": parts, "eof": eof, "text": text, "group": group,
            "configs": configs or GRID, "trailing_comma": trailing_comma}


def random_sets(rng, n_sets, depth, stats):
    cases = []
    for si in range(n_sets):
        w = gen.World(rng, n_entities=0)
        nl = rng.random() < 0.25
        ptc = 0.15 if rng.random() < 0.2 else 0.0      # a fifth of the sets has trailing commas
        pols = [fmtgen.policy_toks(rng, w, depth, nl_strings=nl, stats=stats, p_trailing_comma=ptc)
                for _ in range(rng.choice([1, 1, 2, 3, 4]))]
        g = "set%d" % si
        # two comment-free spacings of the same tokens (F1), a lightly and a heavily commented text
        cases.append(mk_case("plain", [fmtgen.assemble(rng, p) for p in pols], group=g))
        cases.append(mk_case("respaced", [fmtgen.assemble(rng, p, p_glue=rng.choice([0.0, 0.9])) for p in pols], group=g))
        cases.append(mk_case("commented", [fmtgen.assemble(rng, p, p_comment=0.1) for p in pols],
                             eof=rng.choice(["", "\n", "// eof", "\n// eof\n", "\n\n// a\n// b"])))
        cases.append(mk_case("heavily_commented", [fmtgen.assemble(rng, p, p_comment=0.5) for p in pols],
                             eof=rng.choice(["", "// end", "\n\n\n"])))
    return cases


KITCHEN = [
    '@id("k1") @note permit ( principal == User::"alice" , action in [ Action::"view" , Action::"edit" ] , '
    'resource is Photo in NS::Group::"g" ) when { principal . n < 3 && ! ( resource has owner . name ) || '
    'context [ "a b" ] like "x*y" } unless { if principal is User in NS::Group::"g" then - 1 + 2 * 3 == 7 '
    'else [ 1 , { k : "v" , "k 2" : decimal ( "1.5" ) . lessThan ( decimal ( "2.0" ) ) } ] . contains ( 1 ) } ;',
    'forbid ( principal in ?principal , action , resource == ?resource ) when { ! ! true != false } ;',
    # more grammar positions: annotation without value between annotations with values, has-chain, nested if /
    # else-if, index access, negative literals, nested records and sets, `is` without `in`, several conditions,
    # namespaced entity types, function-style and method-style extension calls, `like` with escapes
    '@a ( "1" ) @b @c ( "// no" ) forbid ( principal is NS::Group , action == Action::"x y" , resource in Photo::"p" ) '
    'when { principal has a . b . c && resource [ "k" ] . f has "x y" } '
    'unless { if context . n >= - 2 then true else if ! context . b then [ ] . isEmpty ( ) else { r : { s : [ - 1 , 2 ] } } . r . s '
    '. containsAny ( [ 3 ] ) } '
    'when { context . s like "a\\*b*\\u{1F600}" || ip ( "10.0.0.1" ) . isInRange ( ip ( "10.0.0.0/8" ) ) && principal is User } ;',
]


def split_tokens(s):
    """tokens of a KITCHEN text (written with single spaces between all tokens, no spaces in strings
       except where quoted) """
    out, i, n = [], 0, len(s)
    while i < n:
        if s[i] == " ":
            i += 1
        elif s[i] == '"':
            j = i + 1
            while s[j] != '"':
                j += 2 if s[j] == "\\" else 1
            out.append(s[i:j + 1])
            i = j + 1
        else:
            j = i
            while j < n and s[j] != " ":
                j += 1
            out.append(s[i:j])
            i = j
    return out


def boundary_stream(rng, tier):
    """a comment at every single token boundary of the kitchen-sink policies, as a trailing comment,
       as an own-line comment, and as a blank-line-surrounded pair"""
    cases = []
    cfgs = [(1, 2), (40, 4), (80, 2), (500, 0)] if tier == "quick" else GRID
    for text in KITCHEN:
        toks = split_tokens(text)
        for i in range(len(toks) + 1):
            for style, sep in (("trailing", " // c%d\n" % i), ("own_line", "\n// c%d\n" % i),
                               ("pair", "\n\n// a%d \"\n\n//b%d */\n\n" % (i, i))):
                if i == 0:
                    sep = sep.lstrip(" ")
                t = fmtgen.assemble(rng, toks, force={i: sep}, p_glue=0.0)
                cases.append(mk_case("boundary_" + style, [t], configs=cfgs))
    return cases


def eof_stream(rng):
    cases = []
    toks = split_tokens(KITCHEN[1])
    base = fmtgen.assemble(rng, toks, force={len(toks): ""}, p_glue=0.0)
    for eof in ["", "\n", "\r\n", "\n\n\n", " ", "// c", " // c", "// c\n", "\n// c", "\n// c\n", "\n// a\n// b", "\n// a\n\n\n// b\n\n",
                "// a\r// b", " // a\r\n// b\r\n", "\n//", "//\n//\n//", "\n   // indented   \n\t// tab\t\n", "// \"", "\n// */"]:
        cases.append(mk_case("eof", [base], eof=eof))
    for lead in ["// only comment", "// a\n// b\n", "\n\n// c\n\n"]:
        cases.append(mk_case("leading", [lead + base]))
    cases.append(mk_case("empty", [""], configs=[(80, 2)]))
    cases.append(mk_case("only_comment", ["// nothing else\n"], configs=[(80, 2)]))
    return cases


TRAILING_COMMA = [
    'permit(principal, action, resource, // c\n// d\n) // e\nwhen { true };',
    'permit(principal, action, resource) when { [1 // a\n, // b\n] == [] };',
    'permit(principal, action, resource) when { {a: 1 // a\n// x\n, // b\n// y\n} == {} };',
    'permit(principal, action in [Action::"a", // c\n], resource) when { [[1, // c1\n], // c2\n].isEmpty() };',
    '@id("t") permit(principal == ?principal, action, resource in ?resource, // slot\n);',
    'permit(principal, action, resource) when { [1, // c\n].contains(1) };',
    'permit(principal, action, resource) when { {a: 1, // c\n}.a == 1 };',
    'permit(principal, action, resource) when { principal.contains(1, // c\n) };',
    'permit(principal, action, resource) when { [1, 2,\n// c\n] == [] };',
]


def trailing_comma_stream():
    return [mk_case("trailing_comma", [t], configs=[(80, 2), (1, 0)], trailing_comma=True) for t in TRAILING_COMMA]


def malformed_stream(rng, n, depth):
    """near-miss texts: one token deleted / duplicated / replaced; most do not parse"""
    cases = []
    w = gen.World(rng, n_entities=0)
    for _ in range(n):
        toks = fmtgen.policy_toks(rng, w, depth)
        i = rng.randrange(len(toks))
        c = rng.randint(0, 3)
        if c == 0:
            toks = toks[:i] + toks[i + 1:]
        elif c == 1:
            toks = toks[:i] + [toks[i]] + toks[i:]
        elif c == 2:
            toks = toks[:i] + [rng.choice([",", ")", "(", "}", "?other", "=", "&", "|", "'", "#", "\"open", "/*", "1.5", "if"])] + toks[i + 1:]
        else:
            toks = toks[:i] + [toks[i], rng.choice([",", ";", "::", ".", "!", "-"])] + toks[i + 1:]
        cases.append(mk_case("malformed", [fmtgen.assemble(rng, toks, p_comment=0.05, p_glue=0.0)],
                             configs=[rng.choice(GRID)]))
    return cases


# ------------------------------------------------------------------ canonical forms
def canon_rust_items(j):
    if "items" not in j:
        return None
    out = []
    for it in j["items"]:
        if it[0] == "tok":
            out.append((it[1], tuple(it[2])))
        else:
            s = "".join(chr(c) for c in it[1])
            for piece in s.replace("\r", "\n").split("\n"):
                while piece and piece[-1] in fmtgen.WS_SET:
                    piece = piece[:-1]
                while piece and piece[0] in fmtgen.WS_SET:
                    piece = piece[1:]
                if piece:
                    out.append(("comment", tuple(ord(c) for c in piece)))
    return out


def canon_model_items(s):
    if not isinstance(s, list) or not s or s[0] != "items":
        return None
    return [(str(x[0]), tuple(x[1])) for x in s[1:]]


def dedupe(seq):
    seen, out = {}, []
    for x in seq:
        if x not in seen:
            seen[x] = len(out)
            out.append(x)
    return out, seen


# ------------------------------------------------------------------ the run
def evaluate(rep, cases, harness, driver, stats):
    """runs every case through the implementation and the model; reports violations.
       returns the list of failures as (case index, cfg, what)"""
    texts, tix = dedupe([c["text"] for c in cases])
    facts_in = dict(zip(texts, fw.run_rust(harness, [{"cmd": "fmt_facts", "text": t} for t in texts])))
    toks_in = dict(zip(texts, fw.run_rust(harness, [{"cmd": "fmt_tokens", "text": t} for t in texts])))
    items_in = dict(zip(texts, fw.run_model(driver, [[Sym("fmt_items"), Str(t)] for t in texts])))

    jobs = [(ci, cfg) for ci, c in enumerate(cases) for cfg in c["configs"]]
    fkeys, _ = dedupe([(cases[ci]["text"], cfg) for ci, cfg in jobs])
    out1 = dict(zip(fkeys, fw.run_rust(harness, [{"cmd": "format", "text": t, "width": w, "indent": i} for (t, (w, i)) in fkeys])))
    k2, _ = dedupe([(r["ok"], cfg) for (t, cfg), r in out1.items() if "ok" in r])
    out2 = dict(zip(k2, fw.run_rust(harness, [{"cmd": "format", "text": t, "width": w, "indent": i} for (t, (w, i)) in k2])))
    outs, _ = dedupe([t for (t, _) in k2] + [r["ok"] for r in out2.values() if "ok" in r])
    outs = [t for t in outs if t not in facts_in]
    facts_out = dict(zip(outs, fw.run_rust(harness, [{"cmd": "fmt_facts", "text": t} for t in outs])))
    facts_all = dict(facts_in)
    facts_all.update(facts_out)
    # the verified validator on every (input, output) and (output, re-formatted output) pair
    vpairs, _ = dedupe([(t, r["ok"]) for (t, cfg), r in out1.items() if "ok" in r] +
                       [(t, r["ok"]) for (t, cfg), r in out2.items() if "ok" in r])
    verdict = dict(zip(vpairs, [str(x) == "true" for x in
                                fw.run_model(driver, [[Sym("fmt_ok"), Str(a), Str(b)] for a, b in vpairs])]))
    stats["format_calls"] = len(fkeys) + len(k2)
    stats["validator_pairs"] = len(vpairs)
    stats["texts"] = len(texts)

    # texts with a trailing comma before ] } ) are outside the validator's domain (the formatter
    # deletes that comma, so the token sequence changes although the policies do not)
    def has_trailing_comma(t):
        its = canon_rust_items(toks_in[t]) or []
        tk = [x for x in its if x[0] != "comment"]
        return any(a == ("sym", (44,)) and b[0] == "sym" and b[1] in ((93,), (125,), (41,)) for a, b in zip(tk, tk[1:]))

    for c in cases:
        if not c["trailing_comma"] and has_trailing_comma(c["text"]):
            c["trailing_comma"] = True
            stats["trailing_comma_texts"] = stats.get("trailing_comma_texts", 0) + 1

    failures = []

    def fail(ci, cfg, what, detail, key=None, no_failing_input=False):
        failures.append((ci, cfg, what))
        c = cases[ci]
        # at most 5 replay files per (kind, stream): a broken formatter fails thousands of cases
        capk = (what, c["kind"])
        stats.setdefault("violations_by_kind", {})
        stats["violations_by_kind"]["%s / %s" % capk] = stats["violations_by_kind"].get("%s / %s" % capk, 0) + 1
        if stats["violations_by_kind"]["%s / %s" % capk] > 5:
            return
        payload = {"property": PROP, "kind": what, "stream": c["kind"], "text": c["text"],
                   "width": cfg[0] if cfg else None, "indent": cfg[1] if cfg else None, "detail": detail,
                   "replay": "./check C12 --replay <this file>"}
        if no_failing_input:
            payload["theorem_or_correspondence"] = detail.get("correspondence", "")
        rep.violation(payload, no_failing_input=no_failing_input, key=key)

    # lexer correspondence: model clex <-> formatter get_token_stream
    for t in texts:
        r, m = canon_rust_items(toks_in[t]), canon_model_items(items_in[t])
        stats["lex_compared"] = stats.get("lex_compared", 0) + 1
        if r is None and m is None:
            stats["lex_error_both"] = stats.get("lex_error_both", 0) + 1
            continue
        if r != m:
            if r is None and "parse_error" in facts_in[t]:
                # outside the parseable domain the model lexer may be more permissive / stricter
                stats["lex_diff_unparseable"] = stats.get("lex_diff_unparseable", 0) + 1
                continue
            if m is None and "parse_error" in facts_in[t]:
                stats["lex_diff_unparseable"] = stats.get("lex_diff_unparseable", 0) + 1
                continue
            ci = next(i for i, c in enumerate(cases) if c["text"] == t)
            fail(ci, None, "model lexer differs from the formatter's token stream",
                 {"correspondence": "Fmt.clex <-> cedar_policy_formatter::lexer::get_token_stream; c12_comments/c12_tokens transfer through it",
                  "rust": repr(r)[:1500], "model": repr(m)[:1500]}, no_failing_input=True)

    for ci, cfg in jobs:
        c = cases[ci]
        t = c["text"]
        fin = facts_in[t]
        r1 = out1[(t, cfg)]
        key = KEY_TRAILING_COMMA if c["trailing_comma"] else None
        stats["by_stream"][c["kind"]] = stats["by_stream"].get(c["kind"], 0) + 1
        if "panic" in r1 or "abort" in r1 or "harness_error" in r1:
            fail(ci, cfg, "formatter panicked / crashed", {"result": r1})
            continue
        if "parse_error" in fin:
            stats["unparseable"] = stats.get("unparseable", 0) + 1
            if "ok" in r1:
                fail(ci, cfg, "formatter accepted a text the parser rejects", {"parse_error": fin["parse_error"], "output": r1["ok"]})
            else:
                stats["err_class"][r1["err"]] = stats["err_class"].get(r1["err"], 0) + 1
            continue
        stats["parseable"] = stats.get("parseable", 0) + 1
        if "ok" not in r1:
            stats["err_class"][r1.get("err")] = stats["err_class"].get(r1.get("err"), 0) + 1
            fail(ci, cfg, "formatting a parseable text failed (totality)", {"result": r1})
            continue
        o1 = r1["ok"]
        cin = fmtgen.scan_comments(t)
        bad = []
        if facts_all[o1] != fin:
            bad.append(("output does not parse to the same policies", {"input_facts": fin, "output_facts": facts_all[o1]}))
        if fmtgen.scan_comments(o1) != cin:
            bad.append(("comments of the output differ from the comments of the input",
                        {"input_comments": cin, "output_comments": fmtgen.scan_comments(o1)}))
        r2 = out2[(o1, cfg)]
        if "ok" not in r2:
            bad.append(("re-formatting the output failed", {"result": r2}))
        else:
            o2 = r2["ok"]
            # "re-formatting any output still preserves policies and comments": relative to that output
            if facts_all[o2] != facts_all[o1]:
                bad.append(("re-formatted output does not parse to the same policies as the output", {"output2": o2}))
            if fmtgen.scan_comments(o2) != fmtgen.scan_comments(o1):
                bad.append(("re-formatting lost or reordered comments", {"output_comments": fmtgen.scan_comments(o1), "output2_comments": fmtgen.scan_comments(o2)}))
            if not cin and o2 != o1:
                bad.append(("formatting comment-free text is not idempotent", {"output2": o2}))
                stats["non_idempotent"] = stats.get("non_idempotent", 0) + 1
            if not cin:
                stats["idempotence_checked"] = stats.get("idempotence_checked", 0) + 1
        v1 = verdict[(t, o1)]
        stats["validator_true" if v1 else "validator_false"] = stats.get("validator_true" if v1 else "validator_false", 0) + 1
        if bad:
            for what, d in bad:
                d = dict(d, output=o1, validator_fmt_ok=v1)
                fail(ci, cfg, what, d, key=key if what.startswith("comments of the output differ") else None)
        elif not v1 and not c["trailing_comma"]:
            fail(ci, cfg, "validator rejects an output that the implementation oracle accepts",
                 {"correspondence": "Fmt.fmt_okb (token+comment sequence equality) on (input, policies_str_to_pretty output); c12_* transfer through it",
                  "output": o1}, no_failing_input=True)
        elif "ok" in r2 and not verdict[(o1, r2["ok"])] and not c["trailing_comma"]:
            fail(ci, cfg, "validator rejects a re-formatted output", {"correspondence": "Fmt.fmt_okb on (output, re-formatted output)",
                                                                        "output": o1, "output2": r2["ok"]}, no_failing_input=True)
        stats["n_comments"][min(len(cin), 10)] = stats["n_comments"].get(min(len(cin), 10), 0) + 1
        stats["out_lines"][min(o1.count("\n") // 10, 10)] = stats["out_lines"].get(min(o1.count("\n") // 10, 10), 0) + 1

    # F1: comment-free texts with the same tokens format identically
    groups = {}
    for ci, c in enumerate(cases):
        if c["group"] is not None:
            groups.setdefault(c["group"], []).append(ci)
    for g, cis in groups.items():
        if len(cis) < 2 or "parse_error" in facts_in[cases[cis[0]]["text"]]:
            continue
        a, b = cases[cis[0]], cases[cis[1]]
        for cfg in GRID:
            ra, rb = out1.get((a["text"], cfg)), out1.get((b["text"], cfg))
            if ra is None or rb is None or "ok" not in ra or "ok" not in rb:
                continue
            stats["respace_checked"] = stats.get("respace_checked", 0) + 1
            if ra["ok"] != rb["ok"]:
                fail(cis[1], cfg, "formatting depends on the white space of comment-free input (F1)",
                     {"other_text": a["text"], "output_other": ra["ok"], "output": rb["ok"]})
    return failures, (texts, items_in)


def run(rep, tier, seed):
    ob, dis, details, failures = fw.check_props(PROP_FILE, THEOREMS)
    harness = fw.build_harness()
    driver = fw.build_model_driver()
    rng = random.Random(seed)
    stats = {"by_stream": {}, "err_class": {}, "n_comments": {}, "out_lines": {}}
    ops = {}
    n_sets, depth, n_mal = (45, 4, 150) if tier == "quick" else (600, 6, 2000)
    cases = random_sets(rng, n_sets, depth, ops) + boundary_stream(rng, tier) + eof_stream(rng) + \
        trailing_comma_stream() + malformed_stream(rng, n_mal, depth)
    fails, (texts, items_in) = evaluate(rep, cases, harness, driver, stats)
    # shrink: for a failing policy set, look for a single policy of it that fails alone
    seen = set()
    for ci, cfg, what in fails[:5]:
        c = cases[ci]
        if len(c["parts"]) > 1 and cfg is not None and ci not in seen:
            seen.add(ci)
            sub = [mk_case(c["kind"] + "_shrunk", [p], eof=c["eof"], configs=[cfg]) for p in c["parts"]]
            evaluate(rep, sub, harness, driver, {"by_stream": {}, "err_class": {}, "n_comments": {}, "out_lines": {}})
    mc = [[Sym("fmt_items"), Str(t)] for t in texts[:40]]
    nx = fw.coq_crosscheck(mc, [items_in[t] for t in texts[:40]], PROP)
    for f in failures:
        rep.violation({"property": PROP, "kind": "proof obligation no longer checks", "detail": f}, no_failing_input=True)
    distinct = {fw.case_hash([c["text"], cfg]) for c in cases for cfg in c["configs"] if c["kind"] != "malformed"}
    sample = next(c for c in cases if c["kind"] == "commented")
    rep.coverage = {
        "obligations": ob, "discharged": dis,
        "checker_cmd": "make -C coq props/%s.vo (coqc 8.16.1) + Print Assumptions" % PROP_FILE,
        "trusted_base": fw.TRUSTED_BASE + ["the `pretty` crate's layout algorithm and the ~1000 lines of Doc combinators are NOT modelled: only their output is validated"],
        "theorems": details,
        "evaluations": stats["format_calls"], "distinct_nontrivial": len(distinct),
        "rule": "distinct by hash of (text, width, indent); non-trivial = text of a non-malformed stream (parseable policy set with at least one policy, or an EOF/comment-only edge case); every such pair is formatted, re-formatted, parsed before and after, validated by the extracted fmt_okb, and its comment sequence compared",
        "traces_validated_against_impl": stats["validator_pairs"] + stats.get("lex_compared", 0),
        "vm_compute_crosscheck_cases": nx,
        "grid": {"widths": WIDTHS, "indents": INDENTS},
        "stream_histogram": stats["by_stream"], "parseable": stats.get("parseable", 0), "unparseable": stats.get("unparseable", 0),
        "formatter_error_classes_on_unparseable": stats["err_class"],
        "comments_per_text_histogram": stats["n_comments"], "output_lines_div10_histogram": stats["out_lines"],
        "validator_verdicts": {"true": stats.get("validator_true", 0), "false": stats.get("validator_false", 0)},
        "idempotence_checked": stats.get("idempotence_checked", 0), "respace_checked": stats.get("respace_checked", 0),
        "lexer_correspondence": {k: v for k, v in stats.items() if k.startswith("lex_")},
        "operator_histogram": ops, "violations_by_kind": stats.get("violations_by_kind", {}),
        "trailing_comma_texts_outside_validator_domain": stats.get("trailing_comma_texts", 0),
        "samples": [{"text": sample["text"], "kind": sample["kind"]}, {"text": cases[-1]["text"], "kind": cases[-1]["kind"]}],
    }
    rep.assumptions = [
        "the validator's token-sequence equality is stricter than the property: inputs with a trailing comma inside [..], {..} or (args) are outside its domain (the formatter deletes the comma); they are exercised by the implementation oracle only",
        "totality and layout are explored, not proved", "texts up to a few KB; policy sets of 1-4 policies; expression depth <= %d" % depth,
    ]


def replay(rep, path):
    payload = json.load(open(path))
    harness = fw.build_harness()
    driver = fw.build_model_driver()
    cfgs = [(payload["width"], payload["indent"])] if payload.get("width") is not None else [(80, 2)]
    c = mk_case("replay", [payload["text"]], configs=cfgs, trailing_comma=(payload.get("stream") == "trailing_comma"))
    stats = {"by_stream": {}, "err_class": {}, "n_comments": {}, "out_lines": {}}
    fails, _ = evaluate(rep, [c], harness, driver, stats)
    print(json.dumps({"text": payload["text"], "configs": cfgs, "failures": [f[2] for f in fails]}, indent=1))
