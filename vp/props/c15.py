"""C15 — batched (loader-driven) authorization equals ordinary authorization.
   Proof: props/C15_Batched.v (loader loop with the partial evaluator abstracted as Section variables).
   Oracle on the implementation (PolicySet::is_authorized_batched with a loader backed by the store):
     every budget 0..: outcome is a decision or "insufficient iterations"; a decision equals
     Authorizer::is_authorized over the full store; monotone in the budget; budget n+1 decides
     (n = distinct uids in store + request + policies); at most `budget` loader calls.
   Correspondence: the model loop (coq/model/Batched.v t_batched) driven with the per-iteration
     facts observed on the implementation (loaded sets, requested sets, loader answers, decision
     reached) vs the implementation outcome and requested sets for every budget.
   Streams: (A) tgen schemas / well-typed policies / conformant stores with absent entities;
            (B) a Node schema with attribute chains up to length 5, `in` against sets, tags, context
                entities, action groups, dangling references, missing principal/resource."""
import json
import os
import random
import sys

sys.path.insert(0, os.path.dirname(os.path.dirname(os.path.abspath(__file__))))
import cedar            # noqa: E402
import framework as fw  # noqa: E402
import tgen             # noqa: E402
from sx import Sym      # noqa: E402

PROP = "C15"
PROP_FILE = "C15_Batched"
THEOREMS = ["c15_insufficient", "c15_insufficient_uses_budget", "c15_calls_le_budget", "c15_returned_again_ignored",
            "c15_monotone", "c15_progress", "c15_loader_of_ok", "c15_loader_all_ok", "c15_agree_partial",
            "c15_progress_chain"]

MANIFEST = {
    "text": "Loader loop of is_authorized_batched (as of 6dde98e: entities returned again are skipped) modelled with the partial evaluator abstract (Section variables; hypotheses listed in notes/C15.md): only non-decision outcome is InsufficientIterations and only after exactly n loader calls, decisions are monotone in the budget, budget > |uids of the universe| decides (c15_progress, loader hypotheses proved for loader_of/loader_all, all interp hypotheses proved for the pointer-chain instance), a decision equals the concrete one given residual soundness (C14). Implementation-level oracle on PolicySet::is_authorized_batched vs Authorizer::is_authorized for every budget and 6 loader variants; chain policies are modelled WITHOUT facts from the implementation (outcome and requested ids per iteration predicted by the model), other policies by a fact-table driven model loop.",
    "technique": "proof (Coq, induction over the budget with a loaded-set invariant and the measure |universe| - |loaded|) + differential/metamorphic oracle + trace correspondence",
    "note": "TPE itself is not modelled here (C14); its needed properties are Section hypotheses.",
}

VARIANTS = ["exact", "extra_fresh", "ancestors_fresh", "extra_any", "ancestors_any", "all_any"]
DUP_KEY = "C15-loader-returns-already-loaded-entity-duplicate-error"

NODE_SCHEMA = {"": {
    "entityTypes": {"Node": {"memberOfTypes": ["Node"],
                             "shape": {"type": "Record", "attributes": {
                                 "flag": {"type": "Boolean"},
                                 "next": {"type": "Entity", "name": "Node", "required": False},
                                 "peers": {"type": "Set", "element": {"type": "Entity", "name": "Node"}}}},
                             "tags": {"type": "Boolean"}}},
    "actions": {"grp": {},
                "act": {"memberOf": [{"id": "grp"}],
                        "appliesTo": {"principalTypes": ["Node"], "resourceTypes": ["Node"],
                                      "context": {"type": "Record", "attributes": {
                                          "target": {"type": "Entity", "name": "Node"}}}}}}}}


def nuid(i):
    return {"type": "Node", "id": "n%d" % i}


def chain_expr(base, d):
    """`base has next && base.next has next && ... && base.next^d.flag` (d hops)"""
    parts, cur = [], base
    for _ in range(d):
        parts.append("%s has next" % cur)
        cur = cur + ".next"
    parts.append(cur + ".flag")
    return " && ".join(parts)


def node_case(rng):
    N = 7
    pp = rng.choice([0.75, 0.9, 1.0])
    present = [i for i in range(N) if rng.random() < pp]
    ents = []
    for i in present:
        attrs = {"flag": rng.random() < 0.6, "peers": [{"__entity": nuid(rng.randrange(N + 1))} for _ in range(rng.choice([0, 0, 1, 2, 3]))]}
        if rng.random() < 0.9:
            attrs["next"] = {"__entity": nuid((i + 1) % N if rng.random() < 0.85 else rng.randrange(N + 1))}
        parents = [nuid(j) for j in range(i + 1, N) if rng.random() < 0.25]
        tags = {"k": rng.random() < 0.5} if rng.random() < 0.5 else {}
        ents.append({"uid": nuid(i), "attrs": attrs, "parents": parents, "tags": tags})
    p, r, t = rng.randrange(N + 1), rng.randrange(N + 1), rng.randrange(N + 1)
    request = {"principal": nuid(p), "action": {"type": "Action", "id": "act"}, "resource": nuid(r),
               "context": {"target": {"__entity": nuid(t)}}}
    lit = lambda: 'Node::"n%d"' % rng.randrange(N + 1)  # noqa: E731
    atoms = [
        lambda: chain_expr(rng.choice(["principal", "resource", "context.target"]), rng.randint(0, 5)),
        lambda: chain_expr(rng.choice(["principal", "resource"]), rng.randint(3, 5)),
        lambda: "principal in resource.peers",
        lambda: "resource.peers.contains(principal)",
        lambda: "principal has next && principal.next in [%s, %s]" % (lit(), lit()),
        lambda: "principal in [%s, %s]" % (lit(), lit()),
        lambda: 'principal.hasTag("k") && principal.getTag("k")',
        lambda: 'resource has next && resource.next.hasTag("k") && resource.next.getTag("k")',
        lambda: "context.target in principal",
        lambda: "context.target.flag",
        lambda: "principal in %s" % lit(),
        lambda: "%s.flag" % lit(),
        lambda: "%s has next" % lit(),
        lambda: "resource.peers.containsAny(principal.peers)",
        lambda: "principal == %s" % lit(),
        lambda: "resource.flag || " + chain_expr("principal", rng.randint(1, 3)),
        lambda: "if principal.flag then %s else %s" % (chain_expr("resource", 2), chain_expr("resource", 1)),
        lambda: 'action in Action::"grp"',
        lambda: "!(" + chain_expr("principal", rng.randint(1, 4)) + ")",
        # one atom per remaining residual kind with a dereference chain below it: the loader must be asked for the
        # entities under `is`, `is .. in`, isEmpty, set / record literals, `==`, containsAll and `if` tests as well
        lambda: "%s has next && %s.next is Node" % ((rng.choice(["principal", "resource", "context.target"]),) * 2),
        lambda: "principal has next && principal.next has next && principal.next.next is Node",
        lambda: "resource has next && resource.next is Node in %s" % lit(),
        lambda: "principal has next && principal.next.peers.isEmpty()",
        lambda: "resource has next && [resource.next, principal].contains(context.target)",
        lambda: "principal has next && {a: principal.next, b: resource}.a.flag",
        lambda: "principal has next && resource has next && principal.next == resource.next",
        lambda: "resource has next && resource.next.peers.containsAll(principal.peers)",
        lambda: "if (principal has next && principal.next.flag) then resource.flag else true",
        lambda: "principal has next && (principal.next.flag == (resource has next && resource.next.flag))",
    ]
    pols = []
    for i in range(rng.randint(1, 4)):
        eff = rng.choice(["permit", "permit", "forbid"])
        pc = rng.choice(["principal", "principal", "principal in %s" % lit(), "principal == %s" % lit(), "principal is Node"])
        ac = rng.choice(["action", 'action == Action::"act"', 'action in Action::"grp"', 'action in [Action::"act"]'])
        rc = rng.choice(["resource", "resource", "resource in %s" % lit()])
        body = rng.choice(atoms)()
        if rng.random() < 0.3:
            body = "(%s) %s (%s)" % (body, rng.choice(["&&", "||"]), rng.choice(atoms)())
        kw = "when" if rng.random() < 0.8 else "unless"
        pols.append({"id": "p%d" % i, "text": "%s(%s, %s, %s) %s { %s };" % (eff, pc, ac, rc, kw, body)})
    return {"schema": NODE_SCHEMA, "policies": pols, "templates": [], "request": request, "entities": ents,
            "store_schema": True, "stream": "node"}


def chain_case(rng):
    """stream C: only chain policies over the Node schema; modelled WITHOUT facts from the implementation
       (coq/model/Batched.v c_batched_full): the model gets the store and the policies"""
    N = 7
    pp = rng.choice([0.8, 0.95, 1.0])
    present = [i for i in range(N) if rng.random() < pp]
    ents, ments = [], []
    for i in present:
        flag = rng.random() < 0.6
        attrs = {"flag": flag, "peers": [{"__entity": nuid(rng.randrange(N + 1))} for _ in range(rng.choice([0, 0, 1, 2]))]}
        nxt = None
        if rng.random() < 0.9:
            nxt = (i + 1) % N if rng.random() < 0.85 else rng.randrange(N + 1)
            attrs["next"] = {"__entity": nuid(nxt)}
        parents = [nuid(j) for j in range(i + 1, N) if rng.random() < 0.2]
        ents.append({"uid": nuid(i), "attrs": attrs, "parents": parents, "tags": {}})
        ments.append([i, Sym("true" if flag else "false"), nxt if nxt is not None else Sym("none")])
    p, r, t = rng.randrange(N + 1), rng.randrange(N + 1), rng.randrange(N + 1)
    request = {"principal": nuid(p), "action": {"type": "Action", "id": "act"}, "resource": nuid(r),
               "context": {"target": {"__entity": nuid(t)}}}
    pols, mpols = [], []
    for i in range(rng.randint(1, 4)):
        eff = rng.choice(["permit", "permit", "forbid"])
        if rng.random() < 0.08:
            pols.append({"id": "p%d" % i, "text": "%s(principal, action, resource);" % eff})
            mpols.append([Sym(eff), [Sym("done"), Sym("true")]])
            continue
        lit = rng.randrange(N + 1)
        base, head = rng.choice([("principal", p), ("resource", r), ("context.target", t), ('Node::"n%d"' % lit, lit)])
        d = rng.choice([0, 1, 1, 2, 2, 3, 3, 4, 5, 5])
        pols.append({"id": "p%d" % i, "text": "%s(principal, action, resource) when { %s };" % (eff, chain_expr(base, d))})
        mpols.append([Sym(eff), [Sym("chain"), head, d]])
    return {"schema": NODE_SCHEMA, "policies": pols, "templates": [], "request": request, "entities": ents,
            "store_schema": True, "stream": "chain", "mpols": mpols, "ments": ments}


def tgen_case(rng, sg):
    rs = sg.rs
    envs = tgen.request_envs(rs)
    env = rng.choice(envs)
    pols = []
    hints = []
    for i in range(rng.randint(1, 4)):
        p = tgen.gen_policy(rng, rs, well_typed=True, env=env if rng.random() < 0.8 else None, depth=rng.choice([2, 3]),
                            allow_slots=False, pid="p%d" % i)
        pols.append({"id": "p%d" % i, "text": tgen.policy_text(p)})
        hints += tgen.policy_uids(p)
    q, es = tgen.gen_env(rng, rs, env, hints, p_present=rng.choice([0.5, 0.85, 1.0]), with_actions=True)
    return {"schema": sg.js, "policies": pols, "templates": [], "request": cedar.request_json(q),
            "entities": cedar.entities_json(es), "store_schema": True, "stream": "tgen"}


def rust_cmd(c, budgets):
    return {"cmd": "batched", "schema": c["schema"], "templates": c["templates"], "policies": c["policies"],
            "request": c["request"], "entities": c["entities"], "store_schema": c["store_schema"],
            "variant": c["variant"], "budgets": budgets}


def oc(o):
    """canonical outcome of one run"""
    if "ok" in o:
        return ("ok", o["ok"].lower())
    if "insufficient" in o:
        return ("insufficient",)
    if o.get("err") == "entities" and "duplicate" in o.get("msg", "").lower():
        return ("err_duplicate",)    # unreachable since /repo 6dde98e (finding F-1); still recognised
    return ("err", o.get("err"))


def model_cmds(rr):
    """facts observed on the implementation -> one model command per budget (None: not enough facts)"""
    runs = {r["budget"]: r for r in rr["runs"]}
    B = max(runs)
    big = runs[B]
    if oc(big["outcome"])[0] == "err_duplicate" or oc(big["outcome"])[0] == "err":
        # take the longest run that did not fail to learn the facts; the failing call is learnt from the failing run
        pass
    if any(oc(r["outcome"])[0] not in ("ok", "insufficient") for r in rr["runs"]):
        return None
    calls = big["calls"]
    k = len(calls)
    ids = {}

    def num(u):
        return ids.setdefault(u, len(ids))
    loaded = [[]]
    ltable = []
    for c in calls:
        req = [num(u) for u in c["requested"]]
        ret = [(num(u), ex) for u, ex in c["returned"]]
        ltable.append([req, [[u, Sym("true" if ex else "false")] for u, ex in ret]])
        loaded.append(sorted(set(loaded[-1]) | {u for u, _ in ret}))
    if any(i not in runs for i in range(0, k + 1)):
        return None
    table = []
    for i in range(0, k + 1):
        o = oc(runs[i]["outcome"])
        if o[0] not in ("ok", "insufficient"):
            # the implementation failed in iteration i: the model must fail by itself (duplicate check)
            continue
        nxt = [num(u) for u in calls[i]["requested"]] if i < k else []
        partial = True if i < k else (False if k < B else o[0] == "insufficient")
        if i == 0 and k >= 1 and not calls[0]["returned"]:
            partial = False     # nothing to load at all: the initial residuals are already concrete
        P, T, F = Sym("partial"), Sym("true"), Sym("false")
        if o[0] == "insufficient":
            row = (P, P, P)
        elif o[1] == "deny":
            row = (T, P, P) if partial else (F, F, F)
        else:
            row = (F, T, P) if partial else (F, T, F)
        table.append([loaded[i], [[c, nxt if c is P else []] for c in row]])
    effs = [Sym("forbid"), Sym("permit"), Sym("permit")]
    return {b: [Sym("batched_trace"), b, effs, table, ltable] for b in runs}, ids


def canon_model(s, b):
    try:
        o = s[0]
        if isinstance(o, list):
            out = ("ok", str(o[1]))
        else:
            out = (str(o),)
        return out, [sorted(int(x) for x in call) for call in s[1]]
    except Exception:
        return ("bad", repr(s)), []


class Capped:
    """at most CAP replays per kind of correspondence difference (one cause usually shows up thousands of times)"""
    CAP = 25

    def __init__(self, rep):
        self.rep, self.n = rep, {}

    def violation(self, payload, **kw):
        k = payload["kind"][:60]
        self.n[k] = self.n.get(k, 0) + 1
        if self.n[k] <= self.CAP:
            self.rep.violation(payload, **kw)


def run(rep, tier, seed):
    capped = Capped(rep)
    ob, dis, details, failures = fw.check_props(PROP_FILE, THEOREMS, tier)
    harness = fw.build_harness()
    driver = fw.build_model_driver()
    rng = random.Random(seed)
    n_tgen, n_node, n_chain = (500, 1200, 800) if tier == "quick" else (6000, 16000, 12000)
    cases = []
    sg = None
    for i in range(n_tgen):
        if i % 8 == 0:
            sg = tgen.gen_schema(rng)
        try:
            c = tgen_case(rng, sg)
        except Exception as e:      # generator limitation, not a finding
            continue
        cases.append(c)
    for _ in range(n_node):
        cases.append(node_case(rng))
    for c in cases:
        c["variant"] = rng.choice(VARIANTS[:3]) if rng.random() < 0.8 else rng.choice(VARIANTS[3:])
    for _ in range(n_chain):
        c = chain_case(rng)
        c["variant"] = rng.choice(["exact", "exact", "all_any"])
        cases.append(c)
    # pass 1: small budgets + a large one, to learn n
    SMALL = list(range(0, 9))
    r1 = fw.run_rust(harness, [rust_cmd(c, SMALL + [1000]) for c in cases])
    # pass 2: budgets n and n+1 (the bound of the property)
    idx2 = [i for i, r in enumerate(r1) if "n" in r]
    r2 = fw.run_rust(harness, [rust_cmd(cases[i], [r1[i]["n"], r1[i]["n"] + 1]) for i in idx2])
    second = dict(zip(idx2, r2))

    stats = {"skipped_not_valid": 0, "skipped_entities_error": 0, "allow": 0, "deny": 0, "variants": {}, "streams": {},
             "iterations_needed": {}, "insufficient_runs": 0, "decided_runs": 0, "dangling_loads": 0, "max_n": 0,
             "duplicate_errors": 0, "decided_at_budget0": 0, "model_compared": 0, "model_skipped": 0, "chain_model_compared": 0}
    distinct = set()
    mcmds, mmeta = [], []
    ccmds, cmeta = [], []
    dup_reported = False
    samples = []
    for i, (c, rr) in enumerate(zip(cases, r1)):
        if "runs" not in rr:
            if "entities_error" in rr or "schema_error" in rr:
                stats["skipped_entities_error"] += 1
                continue
            rep.violation({"property": PROP, "kind": "harness failure / panic", "case": rust_cmd(c, SMALL), "rust": rr})
            continue
        if not (rr["validates"] and rr["request_valid"]):
            stats["skipped_not_valid"] += 1
            continue
        runs = list(rr["runs"]) + list(second.get(i, {}).get("runs", []))
        runs.sort(key=lambda r: r["budget"])
        n = rr["n"]
        stats["max_n"] = max(stats["max_n"], n)
        stats["variants"][c["variant"]] = stats["variants"].get(c["variant"], 0) + 1
        stats["streams"][c["stream"]] = stats["streams"].get(c["stream"], 0) + 1
        ordinary = rr["ordinary"].lower()
        stats[ordinary] += 1
        bad = None
        first_ok = None
        for r in runs:
            o = oc(r["outcome"])
            b = r["budget"]
            if o[0] == "err_duplicate":
                stats["duplicate_errors"] += 1
                if not dup_reported:
                    dup_reported = True
                    rep.violation({"property": PROP, "kind": "a loader that returns more than requested (allowed by the EntityLoader documentation) "
                                   "makes is_authorized_batched fail with a Duplicate entities error when an extra entity was loaded before",
                                   "budget": b, "outcome": r["outcome"], "calls": r["calls"], "ordinary": ordinary,
                                   "case": rust_cmd(c, [b])}, key=DUP_KEY)
                continue
            if o[0] not in ("ok", "insufficient"):
                bad = "outcome is neither a decision nor insufficient-iterations at budget %d: %r" % (b, r["outcome"])
                break
            if len(r["calls"]) > b:
                bad = "more loader calls (%d) than the budget %d" % (len(r["calls"]), b)
                break
            if o[0] == "ok":
                stats["decided_runs"] += 1
                if o[1] != ordinary:
                    bad = "batched decision %s at budget %d differs from ordinary authorization %s" % (o[1], b, ordinary)
                    break
                if first_ok is None:
                    first_ok = b
            else:
                stats["insufficient_runs"] += 1
                if first_ok is not None:
                    bad = "decision obtained at budget %d is lost at budget %d" % (first_ok, b)
                    break
                if b > n:
                    bad = "budget %d > n = %d distinct uids but no decision" % (b, n)
                    break
            for call in r["calls"]:
                stats["dangling_loads"] += sum(1 for _, ex in call["returned"] if not ex)
        if bad:
            rep.violation({"property": PROP, "kind": bad, "variant": c["variant"], "n": n, "ordinary": ordinary,
                           "runs": [(r["budget"], r["outcome"]) for r in runs], "case": rust_cmd(c, [r["budget"] for r in runs])})
        if first_ok is not None:
            stats["iterations_needed"][str(first_ok)] = stats["iterations_needed"].get(str(first_ok), 0) + 1
            if first_ok == 0:
                stats["decided_at_budget0"] += 1
            if first_ok >= 2:
                distinct.add(fw.case_hash(rust_cmd(c, [])))
        if len(samples) < 2 and first_ok is not None and first_ok >= 3:
            samples.append({"case": rust_cmd(c, SMALL), "result": {"ordinary": ordinary, "n": n, "first_budget_with_decision": first_ok}})
        # correspondence: pass-1 runs only (budgets 0..8, 1000)
        if c["stream"] == "chain":
            for r in rr["runs"]:
                ccmds.append([Sym("batched_chain"), r["budget"], Sym("all" if c["variant"] == "all_any" else "exact"),
                              c["mpols"], c["ments"]])
                cmeta.append((i, r))
        mc = model_cmds(rr)
        if mc is None:
            stats["model_skipped"] += 1
        else:
            cmds, _ = mc
            for r in rr["runs"]:
                mcmds.append(cmds[r["budget"]])
                mmeta.append((i, r))
    mres = fw.run_model(driver, mcmds)
    for (i, r), m in zip(mmeta, mres):
        stats["model_compared"] += 1
        mo, mcalls = canon_model(m, r["budget"])
        ro = oc(r["outcome"])
        rcalls_n = len(r["calls"])
        ok = (mo == ro) or (ro[0] == "err_duplicate" and mo == ("err_duplicate",))
        if ok and ro[0] in ("ok", "insufficient") and len(mcalls) != rcalls_n:
            ok = False
        if not ok and ro[0] in ("ok", "insufficient", "err_duplicate"):
            capped.violation({"property": PROP, "kind": "model loop (Batched.v batched_full / t_batched) and is_authorized_batched disagree; "
                           "transfer of c15_monotone / c15_insufficient is lost for this input",
                           "budget": r["budget"], "rust": r, "model": repr(m), "case": rust_cmd(cases[i], [r["budget"]])},
                          no_failing_input=True)
    # stream C: the model computes everything (requested ids per iteration, deciding budget) by itself
    cres = fw.run_model(driver, ccmds)
    stats["chain_model_compared"] = len(ccmds)
    for (i, r), m, mcmd in zip(cmeta, cres, ccmds):
        mo, mcalls = canon_model(m, r["budget"])
        ro = oc(r["outcome"])
        try:
            rcalls = [sorted(int(u.split('"')[1][1:]) for u in call["requested"]) for call in r["calls"]]
        except Exception:
            rcalls = [["?"] + call["requested"] for call in r["calls"]]
        if ro[0] not in ("ok", "insufficient"):
            continue        # an error outcome is reported by the oracle above
        if mo != ro or mcalls != rcalls:
            capped.violation({"property": PROP, "kind": "chain model (Batched.v c_batched_full: loop + chain evaluator, no facts from the implementation) "
                           "and is_authorized_batched disagree on the outcome or on the ids requested per iteration",
                           "budget": r["budget"], "rust": r, "model": repr(m), "model_cmd": repr(mcmd),
                           "case": rust_cmd(cases[i], [r["budget"]])})
    nx = fw.coq_crosscheck(mcmds[:25] + ccmds[:25], mres[:25] + cres[:25], PROP)
    for f in failures:
        rep.violation({"property": PROP, "kind": "proof obligation no longer checks", "detail": f}, no_failing_input=True)
    evaluated = sum(stats["streams"].values())
    rep.coverage = {
        "obligations": ob, "discharged": dis,
        "checker_cmd": "make -C coq props/%s.vo (coqc 8.16.1) + Print Assumptions" % PROP_FILE,
        "trusted_base": fw.TRUSTED_BASE + ["C15: the partial evaluator is abstract; Section hypotheses of proofs/BatchedProofs.v (reinterp_stable, partial_needs_unloaded, lits_in_universe, residual soundness) are trusted, see notes/C15.md"],
        "theorems": details,
        "evaluations": stats["decided_runs"] + stats["insufficient_runs"], "distinct_nontrivial": len(distinct),
        "rule": "%d tgen cases (well-typed policies, conformant stores with absent entities) + %d chain cases modelled without facts (stream C) + %d Node-schema cases (attribute chains <= 5 hops, in-sets, tags, context entity, action group, dangling references, missing principal/resource); 6 loader variants; budgets 0..8, 1000, n, n+1; evaluated = cases whose policies validate (strict) and whose request validates; non-trivial = first deciding budget >= 2" % (n_tgen, n_chain, n_node),
        "cases_evaluated": evaluated, "traces_validated_against_impl": stats["model_compared"] + stats["chain_model_compared"],
        "vm_compute_crosscheck_cases": nx, "histograms": stats, "correspondence_differences": capped.n, "samples": samples or [{"case": rust_cmd(cases[-1], SMALL)}],
    }
    rep.assumptions = ["policies validate in strict mode and the request validates against the schema (others are skipped and counted)",
                       "store parsed with the schema (conformant, action entities included)",
                       "loader is a pure function of the store and the requested ids in variants exact/*_any; *_fresh variants remember what they returned",
                       "TPE soundness itself is property C14; here it is a hypothesis of c15_agree_partial"]


def replay(rep, path):
    payload = json.load(open(path))
    print(json.dumps(payload, indent=1)[:6000])
    case = payload.get("case")
    if case:
        harness = fw.build_harness()
        print(json.dumps(fw.run_rust(harness, [case])[0], indent=1)[:6000])
