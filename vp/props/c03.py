"""C03 — strict validation is sound (and not vacuous).

   ORACLE (implementation only): for every generated policy that the implementation's validator accepts in
   strict mode, >= 20 (request, store) pairs that the implementation's own request / entity validation
   accepts are evaluated with the implementation's evaluator; flagged: a type error, a missing attribute
   or tag, an unknown-function error, a non-boolean result, a satisfied policy that carried the
   impossible-policy warning, strict-accept && permissive-reject, an evaluated sub-expression whose value
   does not inhabit the type the typechecker assigned to it, and (non-vacuity) a rejected policy of the
   generator's well-typed stream (declared accesses, optional attributes / tags behind the documented
   guards).
   CORRESPONDENCE: coq/model/Typecheck.v `tc` (extracted) vs Typechecker::typecheck_by_request_env, per
   request environment: accept / reject and the type of the root (policies outside the modelled fragment
   are filtered out of this stream only).
   PROOF: props/C03_Typecheck.v."""
import json
import random

import cedar
import framework as fw
import schema as S
import tgen
import texpr
from sx import Sym, Str
from c11 import HAND_SCHEMA

PROP = "C03"
PROP_FILE = "C03_Typecheck"
THEOREMS = ['c03_sound_partial', 'c03_impossible_partial', 'c03_policy_sound_partial', 'c03_strict_in_permissive_partial', 'c03_accepts_guarded', 'c03_subty_sound', 'c03_store_ok_from_checker']

MANIFEST = {
    "text": "Executable Gallina typechecker `tc` transcribed arm by arm from validator/typecheck.rs (+ subtype / lub / "
            "disjointness of types.rs, capability sets), proved sound against the model evaluator for the covered fragment "
            "(props/C03_Typecheck.v); tied to /repo by differential execution against Typechecker::typecheck_by_request_env "
            "per request environment, plus an implementation-level soundness oracle: every strict-accepted policy is evaluated "
            "by the implementation on >= 20 conformant (request, store) pairs accepted by its own validation.",
    "technique": "proof (Coq) + correspondence by differential execution + implementation-level soundness oracle (validate, then evaluate)",
}

# the constructors inside TypecheckProofs3.in_fragment (kept in sync by hand with coq/proofs/TypecheckProofs3.v)
PROVED_FRAGMENT = {
    "predicate": "TypecheckMain.in_fragment (syntactic)",
    "inside": ["Lit (all literals)", "Var (principal, action, resource, context)", "And", "Or (capabilities on both sides)",
               "UnApp Not", "UnApp Neg", "UnApp IsEmpty", "BinApp Eq", "BinApp Less", "BinApp LessEq", "BinApp Add",
               "BinApp Sub", "BinApp Mul", "BinApp Contains", "BinApp ContainsAll", "BinApp ContainsAny",
               "If c x y (x, y any boolean-rooted form of the fragment: And/Or/Not/Eq/HasAttr/bool literal/Like/Is/IsEmpty/Less/LessEq/Contains*)",
               "HasAttr p a / GetAttr p a with p an access path (Var followed by GetAttr), records and entities, "
               "required and optional (capability-guarded) attributes", "Like", "Is"],
    "outside": ["Slot", "Unknown", "If with non-boolean-rooted branches", "BinApp In/GetTag/HasTag", "ExtCall", "GetAttr/HasAttr on non-path expressions", "SetE", "RecordE"],
    "theorems_for_both_modes": True,
    "other_theorems": ["c03_strict_in_permissive_partial (same fragment)", "c03_accepts_guarded (judgement Simple => strict acceptance)",
                       "c03_subty_sound (all types)"],
}

ALLOWED_ERRORS = {"EntityDoesNotExist", "IntegerOverflow", "FailedExtensionFunctionExecution"}
N_ENVS = 20


# ====================================================================== hand-written idioms (non-vacuity anchors)
HAND_OK = [
    'permit(principal is NS::User, action == NS::Action::"view", resource) when { principal has addr && principal.addr.street == "x" };',
    'permit(principal is NS::User, action == NS::Action::"view", resource) when { principal has addr.zip && principal.addr.zip > 0 };',
    'permit(principal is NS::User, action == NS::Action::"view", resource) when { if principal has c then principal.c == NS::Color::"red" else false };',
    'permit(principal is NS::User, action == NS::Action::"view", resource) when { principal.hasTag("t1") && principal.getTag("t1").contains("a") };',
    'permit(principal is NS::User, action == NS::Action::"view", resource) when { if principal.hasTag("t 2") then principal.getTag("t 2").isEmpty() else true };',
    'permit(principal, action == NS::Action::"view", resource) when { context has r && context.r.u.n < 3 };',
    'permit(principal, action == NS::Action::"view", resource) when { context has d && context.d.lessThan(decimal("2.0")) };',
    'permit(principal, action == NS::Action::"view", resource) when { context has s && context.s.contains(context.n) };',
    'permit(principal, action == NS::Action::"view", resource) when { principal is NS::User && principal has friends && resource in principal.friends };',
    'permit(principal, action, resource) when { principal is NS::User && action == NS::Action::"view" && (if context has c then context.c == NS::Color::"green" else context.n == 1) };',
    'forbid(principal is NS::User, action in NS::Action::"read", resource) unless { principal has ip && principal.ip.isLoopback() };',
    'permit(principal is NS::User, action == NS::Action::"view", resource) when { principal has colors && principal.colors.contains({c: NS::Color::"red"}) };',
    'permit(principal is NS::User, action == NS::Action::"view", resource) when { (principal has addr && principal.addr has zip) && principal.addr.zip == context.n };',
]
HAND_BAD = [
    ('permit(principal is NS::User, action == NS::Action::"view", resource) when { principal.addr.street == "x" };', "unguarded_optional"),
    ('permit(principal is NS::User, action == NS::Action::"view", resource) when { principal has addr || principal.addr.street == "x" };', "guard_wrong_side_of_or"),
    ('permit(principal is NS::User, action == NS::Action::"view", resource) when { if principal has c then true else principal.c == NS::Color::"red" };', "guard_in_else"),
    ('permit(principal is NS::User, action == NS::Action::"view", resource) when { !(principal has c) && principal.c == NS::Color::"red" };', "capability_after_not"),
    ('permit(principal is NS::User, action == NS::Action::"view", resource) when { (if principal has c then true else true) && principal.c == NS::Color::"red" };', "if_test_capability_after"),
    ('permit(principal is NS::User, action == NS::Action::"view", resource) when { (if principal has c then principal.c == NS::Color::"red" else !(principal has c)) && principal.c == NS::Color::"red" };', "if_test_capability_after"),
    ('permit(principal is NS::User, action == NS::Action::"view", resource) when { (if principal has addr then principal has c else true) && principal.c == NS::Color::"red" };', "if_branch_capability_after"),
    ('permit(principal is NS::User, action == NS::Action::"view", resource) when { (principal has c || !(principal has c)) && principal.c == NS::Color::"red" };', "or_capability_after"),
    ('permit(principal is NS::User, action == NS::Action::"view", resource) when { principal.getTag("t1").contains("a") };', "tag_without_hastag"),
    ('permit(principal is NS::User, action == NS::Action::"view", resource) when { principal.hasTag("t1") && principal.getTag("t 2").contains("a") };', "tag_other_key"),
    ('permit(principal, action == NS::Action::"view", resource) when { principal has addr && principal.addr.street == "x" };', "wrong_env"),
    ('permit(principal, action, resource) when { context.n == 1 };', "wrong_action_context"),
    ('permit(principal is NS::User, action == NS::Action::"view", resource) when { principal has addr && principal.addr.zip > 0 };', "unguarded_optional"),
]


# second fixed schema (C03 only): two record attributes that share an OPTIONAL attribute of different entity types - such
# records are not disjoint (both may omit it), so `==` between them must be rejected in strict mode, never typed False
HAND2_SCHEMA = {"": {
    "entityTypes": {
        "Team": {},
        "User": {"shape": {"type": "Record", "attributes": {
            "ra": {"type": "Record", "attributes": {"d": {"type": "Entity", "name": "User", "required": False}}},
            "rb": {"type": "Record", "attributes": {"d": {"type": "Entity", "name": "Team", "required": False}}},
            "rc": {"type": "Record", "attributes": {"d": {"type": "Entity", "name": "Team", "required": False},
                                                      "e": {"type": "Long", "required": False}}}}}}},
    "actions": {"view": {"appliesTo": {"principalTypes": ["User"], "resourceTypes": ["Team"],
                                       "context": {"type": "Record", "attributes": {}}}}}}}
HAND2_BAD = [
    ('permit(principal, action, resource) when { principal.ra == principal.rb };', "eq_records_optional_disjoint"),
    ('permit(principal, action, resource) unless { principal.ra != principal.rb };', "eq_records_optional_disjoint"),
    ('permit(principal, action, resource) when { principal.rb == principal.ra || principal.ra has d };', "eq_records_optional_disjoint"),
    ('permit(principal, action, resource) when { principal.ra == principal.rc };', "eq_records_optional_disjoint"),
    ('permit(principal, action, resource) when { [principal.ra].contains(principal.rb) };', "eq_records_optional_disjoint"),
]


class Case:
    """one policy with its data: text, intent, schema object, slots, (request, entities) pairs"""
    __slots__ = ("sid", "sg", "text", "fault", "expect", "guarded", "slots", "envs", "features", "ast")

    def __init__(self, sid, sg, text, fault, expect, guarded, slots, envs, features=(), ast=None):
        self.sid, self.sg, self.text, self.fault, self.expect, self.guarded = sid, sg, text, fault, expect, guarded
        self.slots, self.envs, self.features, self.ast = slots, envs, features, ast


def slots_json(slots):
    return {"?" + k: cedar.uid_json(u) for k, u in slots.items()}


def hand_cases(rng):
    sg = S.FixedSchema(HAND_SCHEMA)
    out = []
    view = [e for e in tgen.request_envs(sg.rs) if e.action[2] == "view"]
    for text in HAND_OK:
        envs = [tgen.gen_env(rng, sg.rs, rng.choice(view)) for _ in range(N_ENVS)]
        out.append(Case(0, sg, text, None, "accept", True, {}, envs, ("hand",)))
    for text, f in HAND_BAD:
        envs = [tgen.gen_env(rng, sg.rs, rng.choice(view)) for _ in range(N_ENVS)]
        out.append(Case(0, sg, text, f, "reject", False, {}, envs, ("hand",)))
    sg2 = S.FixedSchema(HAND2_SCHEMA)
    view2 = tgen.request_envs(sg2.rs)
    for text, f in HAND2_BAD:
        envs = [tgen.gen_env(rng, sg2.rs, rng.choice(view2)) for _ in range(2 * N_ENVS)]
        out.append(Case(0, sg2, text, f, "reject", False, {}, envs, ("hand",)))
    return out


def gen_cases(rng, sid, npol):
    sg = tgen.gen_schema(rng)
    out = []
    envs_all = tgen.request_envs(sg.rs)
    for k in range(npol):
        p = tgen.gen_policy(rng, sg.rs, depth=rng.choice([1, 1, 2, 3, 3, 4]))   # small bodies: the root type is the atom's type
        try:
            text = tgen.policy_text(p)
        except cedar.NotExpressible:
            continue
        hints = tgen.policy_uids(p)
        envs = []
        for j in range(N_ENVS):
            # mostly the environment the body is typed for; sometimes another one that the scope lets through
            env = p.env if rng.random() < 0.8 else rng.choice(envs_all)
            envs.append(tgen.gen_env(rng, sg.rs, env, hints))
        out.append(Case(sid, sg, text, p.fault, p.expect, p.guarded, p.slots, envs, p.features, p.policy))
    return out + gen_capability_cases(rng, sid, sg)


# the capability algebra of if / && / || is where "two sites that each look fine alone" live: one forced policy per
# schema for each of these faults (the random stream reaches each of them only a handful of times per run)
CAPABILITY_FAULTS = ["guard_wrong_side_of_or", "guard_in_else", "capability_after_not", "if_test_capability_after",
                     "if_branch_capability_after", "or_capability_after", "guard_other_attr", "tag_other_key"]


def gen_capability_cases(rng, sid, sg):
    out = []
    envs_all = tgen.request_envs(sg.rs)
    for f in CAPABILITY_FAULTS:
        try:
            p = tgen.gen_policy(rng, sg.rs, depth=rng.choice([1, 2]), fault=f)
            text = tgen.policy_text(p)
        except (cedar.NotExpressible, RuntimeError, IndexError, KeyError):
            continue
        if p.fault != f:
            continue
        hints = tgen.policy_uids(p)
        envs = [tgen.gen_env(rng, sg.rs, p.env if rng.random() < 0.8 else rng.choice(envs_all), hints) for _ in range(N_ENVS)]
        out.append(Case(sid, sg, text, p.fault, p.expect, p.guarded, p.slots, envs, p.features, p.policy))
    return out


# ====================================================================== values against dumped types
EXT_NAME = {"decimal": "decimal", "ip": "ipaddr", "datetime": "datetime", "duration": "duration"}


def cp(s):
    return "".join(chr(c) for c in s)


def canon(j):
    """cedar.canon_value_from_rust, tolerant of an ip rendered without prefix"""
    (k, v), = j.items()
    if k == "set":
        return ("set", tuple(sorted(set(canon(x) for x in v), key=repr)))
    if k == "record":
        return ("record", tuple((tuple(kk), canon(x)) for kk, x in v))
    if k == "ext":
        return ("ext", {"ip_unparsed": "ip"}.get(v[0], v[0]))
    return cedar.canon_value_from_rust(j)


def inhabits(v, t):
    """canonical value (cedar.canon_value_from_rust) against a type as dumped by the harness (cmd_typecheck::ty)"""
    if t is None:
        return True
    k = v[0]
    if isinstance(t, str):
        return {"long": k == "long", "string": k == "string", "never": False}.get(t, False)
    if "bool" in t:
        return k == "bool" and (t["bool"] == "any" or (t["bool"] == "true") == v[1])
    if "set" in t:
        return k == "set" and (t["set"] is None or all(inhabits(x, t["set"]) for x in v[1]))
    if "entity" in t:
        if k != "entity":
            return False
        if t["entity"] == "any":
            return True
        return any(tuple(tuple(c) for c in n) == v[1] for n in t["entity"])
    if "ext" in t:
        return k == "ext" and EXT_NAME.get(v[1]) == "::".join(cp(c) for c in t["ext"])
    if "record" in t:
        if k != "record":
            return False
        decl = {tuple(a[0]): (a[1], a[2]) for a in t["record"]}
        have = {kk: x for kk, x in v[1]}
        for kk, x in have.items():
            if kk in decl:
                if not inhabits(x, decl[kk][0]):
                    return False
            elif not t["open"]:
                return False
        return all(kk in have for kk, (_, req) in decl.items() if req)
    return False


def typed_children(n):
    k = n[0]
    if k == "if":
        return [n[1], n[2], n[3]]
    if k in ("and", "or"):
        return [n[1], n[2]]
    if k == "unop":
        return [n[2]]
    if k == "binop":
        return [n[2], n[3]]
    if k in ("ext", ):
        return list(n[2])
    if k in ("getattr", "hasattr", "like", "is"):
        return [n[1]]
    if k == "set":
        return list(n[1])
    if k == "record":
        return [x for _, x in n[1]]
    return []


def pair_up(typed, tr, out):
    """pair every node of the evaluation trace with the node of the typed expression that stands for it.
       The typed expression has the shape of the condition except where the typechecker short-circuits:
       `a && b` with a : False and `a || b` with a : True are replaced by the typed `a`; `if c ..` with a
       singleton-typed c carries a copy of the branch it typed in place of the other.  returns False when the
       shapes cannot be reconciled (then nothing is claimed for that sub-tree)."""
    n = typed["n"]
    if n[0] == tr["k"]:
        kids = typed_children(n)
        if len(kids) == len(tr["c"]):
            mark = len(out)
            out.append((typed, tr))
            ok = True
            if n[0] == "if":
                ok = pair_up(kids[0], tr["c"][0], out)
                ct = kids[0]["t"]
                if ok and ct == {"bool": "true"}:
                    ok = pair_up(kids[1], tr["c"][1], out)
                elif ok and ct == {"bool": "false"}:
                    ok = pair_up(kids[2], tr["c"][2], out)
                elif ok:
                    ok = pair_up(kids[1], tr["c"][1], out) and pair_up(kids[2], tr["c"][2], out)
            else:
                for a, b in zip(kids, tr["c"]):
                    if not pair_up(a, b, out):
                        ok = False
                        break
            if ok:
                return True
            del out[mark:]
    # short-circuit shapes: only a False-typed node can stand for a whole &&, only a True-typed one for a whole ||
    if (tr["k"] == "and" and typed["t"] == {"bool": "false"}) or (tr["k"] == "or" and typed["t"] == {"bool": "true"}):
        mark = len(out)
        out.append((typed, tr))          # the whole && / || has the (singleton) type of its left operand
        if n[0] == "lit":
            # ExprBuilder::and / ::or fold two boolean literals into one: the literal stands for the whole
            # && / ||, not for a particular operand
            return True
        if pair_up(typed, tr["c"][0], out):
            return True
        del out[mark:]
    return False


def env_matches(envd, q, slots):
    def nm(x):
        return "::".join(cp(c) for c in x)
    if envd == "undeclared_action":
        return False
    if nm(envd["principal"]) != q["principal"]["type"] or nm(envd["resource"]) != q["resource"]["type"]:
        return False
    if nm(envd["action"]["type"]) != q["action"]["type"] or cp(envd["action"]["id"]) != q["action"]["id"]:
        return False
    for key, sk in (("principal_slot", "?principal"), ("resource_slot", "?resource")):
        if envd[key] is not None and (sk not in slots or nm(envd[key]) != slots[sk]["type"]):
            return False
    return True


# ====================================================================== the oracle
def oracle_policy(rep, c, ve, tcd, stats, samples):
    """c: Case; ve: answer of validate_eval; tcd: answer of typecheck (strict).  returns number of violations"""
    nv = 0
    base = {"property": PROP, "schema": c.sg.js, "policy": c.text, "slots": slots_json(c.slots),
            "generator_intent": {"fault": c.fault, "expect": c.expect, "guarded": c.guarded},
            "replay": "./check C03 --replay <this file>"}
    if "strict" not in ve:
        rep.violation(dict(base, kind="harness could not run the case (generator/harness bug)", rust=ve), no_failing_input=True)
        return 1
    strict, perm = ve["strict"], ve["permissive"]
    stats["policies"] += 1
    key = "%s/%s" % (c.fault or "well_typed", "accept" if strict["passed"] else "reject")
    stats["verdicts"][key] = stats["verdicts"].get(key, 0) + 1
    for e in strict["errors"]:
        stats["error_kinds"][e] = stats["error_kinds"].get(e, 0) + 1
    if strict["passed"] and not perm["passed"]:
        nv += 1
        rep.violation(dict(base, kind="accepted in strict mode but rejected in permissive mode", strict=strict, permissive=perm))
    if c.fault is None and not strict["passed"]:
        nv += 1
        rep.violation(dict(base, kind="non-vacuity: a policy using only declared, correctly typed accesses with optional "
                           "attributes / tags behind the documented guards is rejected by strict validation",
                           strict=strict, features=list(c.features)))
    if not strict["passed"]:
        return nv
    stats["strict_accepted"] += 1
    impossible = "ImpossiblePolicy" in strict["warnings"]
    if impossible:
        stats["impossible"] += 1
    envs_typed = [e for e in (tcd or {}).get("envs", [])]
    for ci, (res, (q, es)) in enumerate(zip(ve["cases"], c.envs)):
        qj = cedar.request_json(q)
        data = {"request": qj, "entities": cedar.entities_json(es)}
        if res.get("request") != "accept" or res.get("entities") != "accept":
            nv += 1
            stats["data_rejected"] += 1
            rep.violation(dict(base, kind="generated data rejected by the implementation's validation (generator bug)",
                               data=data, rust=res), no_failing_input=True)
            continue
        stats["evaluations"] += 1
        r = res["result"]
        bad = None
        if "err" in r:
            stats["outcomes"][r["err"]] = stats["outcomes"].get(r["err"], 0) + 1
            if r["err"] not in ALLOWED_ERRORS:
                bad = "a strict-validated policy fails with %s on conformant data" % r["err"]
        else:
            v = canon(r["ok"])
            if v[0] != "bool":
                bad = "a strict-validated policy evaluates to a non-boolean"
                stats["outcomes"]["nonbool"] = stats["outcomes"].get("nonbool", 0) + 1
            else:
                stats["outcomes"][str(v[1]).lower()] = stats["outcomes"].get(str(v[1]).lower(), 0) + 1
                if v[1] and impossible:
                    bad = "a policy reported as impossible (always false) is satisfied"
        if bad:
            nv += 1
            rep.violation(dict(base, kind=bad, data=data, result=r, strict=strict))
            continue
        # evaluated sub-expressions against the types of the matching request environment
        tr = res.get("trace")
        if tr and envs_typed:
            m = [e for e in envs_typed if env_matches(e["env"], qj, slots_json(c.slots))]
            if len(m) >= 1 and m[0]["typed"] is not None:   # (a self-member type yields the same environment twice)
                pairs = []
                if pair_up(m[0]["typed"], tr, pairs):
                    stats["traces_paired"] += 1
                else:
                    stats["traces_unpaired"] += 1
                for typed, node in pairs:
                    if node["v"] is None or "ok" not in node["v"]:
                        continue
                    stats["subexpr_checked"] += 1
                    v = canon(node["v"]["ok"])
                    if not inhabits(v, typed["t"]):
                        nv += 1
                        rep.violation(dict(base, kind="an evaluated sub-expression has a value outside the type the typechecker assigned",
                                           data=data, subexpr_kind=node["k"], value=node["v"], assigned_type=typed["t"],
                                           typed_subexpr=typed))
                        break
            else:
                stats["env_unmatched"] += 1
                import os
                if os.environ.get("C03_DEBUG"):
                    print("UNMATCHED", c.text, qj["principal"]["type"], qj["action"], qj["resource"]["type"], slots_json(c.slots), len(m),
                          [(e["env"]["principal_slot"], e["env"]["resource_slot"]) for e in envs_typed][:4])
        if len(samples) < 2 and c.guarded and "ok" in r:
            samples.append({"policy": c.text, "request": qj, "n_entities": len(es), "result": r})
    return nv



# ====================================================================== correspondence with the model
def canon_ty(s):
    """type S-expression (model output or texpr.ty_sx of the Rust dump) -> canonical hashable form"""
    if isinstance(s, str) and not isinstance(s, list):
        return str(s)
    tag = str(s[0])
    if tag == "bool":
        return ("bool", str(s[1]))
    if tag == "set":
        return ("set", None if isinstance(s[1], str) else canon_ty(s[1][1]))
    if tag == "entity":
        if isinstance(s[1], str):
            return ("entity", "any")
        return ("entity", tuple(sorted(set(tuple(tuple(c) for c in n) for n in s[1][1]))))
    if tag == "ext":
        return ("ext", tuple(tuple(c) for c in s[1]))
    if tag == "record":
        return ("record", tuple(sorted((tuple(a[0]), canon_ty(a[1]), str(a[2])) for a in s[1])), str(s[2]))
    return ("?", repr(s))


def rust_env_class(e):
    if e["result"] == "success":
        return ("success", canon_ty(texpr.ty_sx(e["typed"]["t"])))
    if e["result"] == "irrelevant" and not e["errors"]:
        return ("irrelevant", None)
    return ("fail", None)


def model_env_class(s):
    if isinstance(s, list) and s and s[0] == "res":
        r = s[2]
        if r[0] == "success":
            return str(s[1]), ("success", canon_ty(r[1]))
        return str(s[1]), (str(r[0]), None)
    return None, (str(s), None)


def model_tree(s):
    """(kind ty (children)) from the model -> the node shape pair_up expects ({"k","c"} + canonical type "t")"""
    if not isinstance(s, list):
        return {"k": "skipped", "c": [], "t": None}
    t = s[1]
    return {"k": str(s[0]), "t": None if (isinstance(t, str) and str(t) == "none") else canon_ty(t),
            "c": [model_tree(x) for x in s[2]]}


def correspondence(rep, driver, cases, tcds, stats, first_cmds):
    """cases[i] typechecked by Rust in mode tcds[i][mode]; one model command per (policy, mode, request env)"""
    mcmds, meta = [], []
    for i, c in enumerate(cases):
        ssx = getattr(c.sg, "_ssx", None)
        if ssx is None:
            ssx = c.sg._ssx = S.schema_sx(c.sg.rs)
        for mode in ("strict", "permissive"):
            tcd = tcds[i][mode]
            if "envs" not in tcd:
                continue
            cond = texpr.texpr_sx(tcd["condition"], typed=False)
            for e in tcd["envs"]:
                if e["env"] == "undeclared_action":
                    continue
                mcmds.append([Sym("typecheck"), Sym(mode), ssx, texpr.reqenv_sx(e["env"]), cond])
                meta.append((i, mode, e))
    if not mcmds:
        return
    mres = fw.run_model(driver, mcmds)
    if not first_cmds:
        first_cmds.extend(list(zip(mcmds, mres))[:24])
    for (i, mode, e), mr, mc in zip(meta, mres, mcmds):
        c = cases[i]
        lits, mcls = model_env_class(mr)
        if mcls[0] == "unmodelled":
            stats["corr_unmodelled"] += 1
            continue
        if lits != "true":
            # an entity literal of an undeclared type / action / enumerated id: the implementation reports it in
            # another pass (rbac) and the per-environment answer of the typechecker is not an error by itself
            stats["corr_bad_literal"] += 1
            continue
        rcls = rust_env_class(e)
        # the annotated tree: the type of every sub-expression the typechecker visits
        if rcls == mcls and rcls[0] != "fail" and e["typed"] is not None and len(mr) > 3:
            pairs = []
            if pair_up(e["typed"], model_tree(mr[3]), pairs):
                for typed, node in pairs:
                    if typed["t"] is None or node["t"] is None:
                        continue
                    stats["corr_nodes"] += 1
                    if canon_ty(texpr.ty_sx(typed["t"])) != node["t"]:
                        mcls = (mcls[0], ("sub-expression %s" % node["k"], node["t"], canon_ty(texpr.ty_sx(typed["t"]))))
                        break
            else:
                mcls = (mcls[0], "annotated trees have different short-circuit shapes")
        stats["corr_compared"] += 1
        stats["corr_classes"][mode + "/" + rcls[0]] = stats["corr_classes"].get(mode + "/" + rcls[0], 0) + 1
        if rcls != mcls:
            stats["corr_mismatch"] += 1
            if stats["corr_mismatch"] <= 5:
                rep.violation({"property": PROP, "kind": "typechecker model and implementation disagree on a request environment",
                               "model_function": "Typecheck.tc_env (coq/model/Typecheck.v)",
                               "rust_entry_point": "Typechecker::typecheck_by_request_env",
                               "mode": mode, "schema": c.sg.js, "policy": c.text, "env": e["env"],
                               "rust": {"result": e["result"], "errors": e["errors"], "root_type": (e["typed"] or {}).get("t")},
                               "model": repr(mr)[:3000], "difference": repr(mcls), "model_cmd": sx_dump(mc),
                               "theorem_transfer_lost": "c03_sound_partial / c03_impossible / c03_strict_in_permissive for this policy"},
                              no_failing_input=True)


def sx_dump(x):
    import sx
    return sx.dump(x)


def run_batch(rep, harness, cases, stats, samples, driver=None, first_cmds=None):
    cmds = []
    for c in cases:
        cmds.append({"cmd": "validate_eval", "schema": c.sg.js, "policy": c.text, "slots": slots_json(c.slots), "trace": True,
                     "cases": [{"request": cedar.request_json(q), "entities": cedar.entities_json(es)} for q, es in c.envs]})
        cmds.append({"cmd": "typecheck", "schema_json": c.sg.js, "policy": c.text, "mode": "strict"})
        cmds.append({"cmd": "typecheck", "schema_json": c.sg.js, "policy": c.text, "mode": "permissive"})
    res = fw.run_rust(harness, cmds)
    nv = 0
    for i, c in enumerate(cases):
        nv += oracle_policy(rep, c, res[3 * i], res[3 * i + 1], stats, samples)
    if driver is not None:
        correspondence(rep, driver, cases, [{"strict": res[3 * i + 1], "permissive": res[3 * i + 2]} for i in range(len(cases))],
                       stats, first_cmds)
    return nv, res


def new_stats():
    return {"policies": 0, "strict_accepted": 0, "impossible": 0, "evaluations": 0, "data_rejected": 0, "verdicts": {},
            "error_kinds": {}, "outcomes": {}, "traces_paired": 0, "traces_unpaired": 0, "env_unmatched": 0,
            "subexpr_checked": 0, "corr_compared": 0, "corr_nodes": 0, "corr_mismatch": 0, "corr_unmodelled": 0, "corr_bad_literal": 0,
            "corr_classes": {}}


def run(rep, tier, seed):
    import resource
    cpu0 = resource.getrusage(resource.RUSAGE_CHILDREN)
    cpu_self0 = resource.getrusage(resource.RUSAGE_SELF)
    ob, dis, details, failures = fw.check_props(PROP_FILE, THEOREMS) if THEOREMS else (0, 0, {}, [])
    harness = fw.build_harness()
    driver = fw.build_model_driver()
    first_cmds = []
    rng = random.Random(seed)
    nschemas, npol = (12, 40) if tier == "quick" else (160, 80)   # quick sized by CPU time (see notes/C03.md)
    stats = new_stats()
    samples, distinct, feats = [], set(), {}
    cases = hand_cases(rng)
    batch = list(cases)
    total = 0
    for sid in range(1, nschemas + 1):
        cs = gen_cases(rng, sid, npol)
        batch += cs
        if len(batch) >= 160 or sid == nschemas:
            run_batch(rep, harness, batch, stats, samples, driver, first_cmds)
            for c in batch:
                total += 1
                if c.fault is not None or c.guarded:
                    distinct.add(fw.case_hash([c.text, c.sid]))
                for f in c.features:
                    feats[f] = feats.get(f, 0) + 1
            batch = []
    nx = fw.coq_crosscheck([x for x, _ in first_cmds], [y for _, y in first_cmds], PROP)
    for f in failures:
        rep.violation({"property": PROP, "kind": "proof obligation no longer checks", "detail": f}, no_failing_input=True)
    cpu1 = resource.getrusage(resource.RUSAGE_CHILDREN)
    cpu_self1 = resource.getrusage(resource.RUSAGE_SELF)
    rep.coverage = {
        "obligations": ob, "discharged": dis,
        "checker_cmd": "make -C coq props/%s.vo (coqc 8.16.1) + Print Assumptions" % PROP_FILE,
        "trusted_base": fw.TRUSTED_BASE, "theorems": details,
        "cpu_seconds_children(harness+model+coqc+cargo)": round(cpu1.ru_utime + cpu1.ru_stime - cpu0.ru_utime - cpu0.ru_stime, 1),
        "cpu_seconds_python": round(cpu_self1.ru_utime + cpu_self1.ru_stime - cpu_self0.ru_utime - cpu_self0.ru_stime, 1),
        "evaluations": stats["evaluations"], "distinct_nontrivial": len(distinct),
        "rule": "%d random schemas + 1 hand schema; per schema %d policies from the type-directed generator vp/tgen.py (0.7 well-typed "
                "with optional attributes/tags behind documented guards, else one typing fault of %d kinds), each strict-accepted "
                "policy evaluated on %d conformant (request, store) pairs; distinct by hash of (schema id, policy text); non-trivial = "
                "uses a guarded optional access or carries a fault" % (nschemas, npol, len(tgen.FAULTS), N_ENVS),
        "traces_validated_against_impl": stats["evaluations"],
        "policies": stats["policies"], "strict_accepted": stats["strict_accepted"],
        "policies_with_impossible_warning": stats["impossible"],
        "verdict_by_generator_intent": stats["verdicts"], "validation_error_kinds": stats["error_kinds"],
        "evaluation_outcomes": stats["outcomes"], "generated_data_rejected": stats["data_rejected"],
        "subexpression_values_checked_against_types": stats["subexpr_checked"],
        "traces_paired_with_typed_expr": stats["traces_paired"], "traces_not_paired": stats["traces_unpaired"],
        "request_env_not_matched": stats["env_unmatched"],
        "construct_histogram": feats,
        "proved_fragment": PROVED_FRAGMENT,
        "correspondence_envs_compared": stats["corr_compared"],
        "correspondence_subexpression_types_compared": stats["corr_nodes"], "correspondence_mismatches": stats["corr_mismatch"],
        "correspondence_filtered_unmodelled": stats["corr_unmodelled"],
        "correspondence_filtered_undeclared_literal": stats["corr_bad_literal"],
        "correspondence_result_classes": stats["corr_classes"], "vm_compute_crosscheck_cases": nx,
        "samples": samples[:2] or [{"policy": cases[0].text}],
    }
    rep.assumptions = [
        "schemas: the subset of vp/schema.py SchemaGen (namespaces, required/optional attributes, nested records, sets, entity and "
        "extension typed attributes, tags, enumerated types, common types, action groups, per-action contexts, open entity shapes)",
        "conformant data = accepted by Request::new(.., Some(schema)) and Entities::from_entities(.., Some(schema)); policies with "
        "slots are linked with one slot assignment of the generator",
        "no partial-schema mode, no `unknown`s, nesting depth <= 6",
    ]


def replay(rep, path):
    payload = json.load(open(path))
    print(json.dumps({k: v for k, v in payload.items() if k not in ("schema", "typed_subexpr")}, indent=1)[:5000])
    if "policy" not in payload or "schema" not in payload:
        return
    harness = fw.build_harness()
    data = payload.get("data")
    cmd = {"cmd": "validate_eval", "schema": payload["schema"], "policy": payload["policy"], "slots": payload.get("slots", {}),
           "trace": False, "cases": [data] if data else []}
    res = fw.run_rust(harness, [cmd])[0]
    print("strict:", res.get("strict"), "permissive:", res.get("permissive"))
    for c in res.get("cases", []):
        print("case:", json.dumps({k: c[k] for k in c if k != "trace"})[:600])
    st, pm = res.get("strict", {}), res.get("permissive", {})
    bad = False
    if st.get("passed") and not pm.get("passed"):
        bad = True
    if st.get("passed"):
        for c in res.get("cases", []):
            r = c.get("result", {})
            if "err" in r and r["err"] not in ALLOWED_ERRORS:
                bad = True
            if "ok" in r and "bool" not in r["ok"]:
                bad = True
            if r.get("ok", {}).get("bool") is True and "ImpossiblePolicy" in st.get("warnings", []):
                bad = True
    elif payload.get("generator_intent", {}).get("fault") is None and "non-vacuity" in payload.get("kind", ""):
        bad = True
    if bad:
        rep.violation(payload)
