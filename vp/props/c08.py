"""C08 — template linking equals substitution; policy-set edits keep ids consistent.
   Proof: props/C08_PolicySet.v.  Correspondence: model history runner (PolicySet.v) vs
   cedar_policy::PolicySet and ast::PolicySet on random operation histories over a small id pool.
   Oracle on the implementation: the abstract state (finite map id -> static | template | link) is
   recomputed in Python from the successful operations and compared with everything the public
   interface shows after EVERY operation; Ok/Err is predicted from the abstract state; responses are
   recomputed from single-policy probes of the hand-substituted static policies."""
import json
import random

import cedar
import framework as fw
import gen
from cedar import U
from sx import Str, Sym

PROP = "C08"
PROP_FILE = "C08_PolicySet"
THEOREMS = ["c08_fail_noop_api", "c08_fail_noop_core", "c08_link_arity", "c08_binding_exact",
            "c08_link_effect_annotations_partial", "c08_wf_step", "c08_history_partial", "c08_wf_step_core",
            "c08_wf_refuted_without_it", "c08_no_shared_id", "c08_link_has_template", "c08_link_subst_partial", "c08_link_static_body_refused", "c08_refines", "c08_policies_exact", "c08_merge_partial"]

MANIFEST = {
    "text": "Policy-set bookkeeping (templates / links / template_to_links + the API-level maps) modelled operation by operation; invariant preserved by every operation and history, failed operation = no change, link arity, link = substitution for evaluation, refinement to a finite map (props/C08_PolicySet.v). Tied to /repo by correspondence on operation histories at API and core level plus an implementation-level oracle (abstract state recomputed from the successful operations, responses recomputed from probes of hand-substituted policies).",
    "technique": "proof (Coq, invariant over fold_left step, refinement) + correspondence by differential execution",
}

T = ("lit", ("bool", True))
F = ("lit", ("bool", False))
ANNOTS = [[], [("a", "x")], [("id", "z"), ("k", "")], [("a", "y")]]
POOL = ["a", "b", "c", "policy0", "policy1"]


def conds_pool(w):
    ghost = U(("User",), "ghost")
    return [[], [("when", T)], [("when", F)], [("unless", F)],
            [("when", ("getattr", ("var", "context"), "missing"))],
            [("when", ("binop", "eq", ("var", "principal"), ("var", "resource")))],
            [("unless", ("hasattr", ("lit", ("entity", ghost)), "n"))],
            [("when", ("binop", "less", ("getattr", ("var", "context"), "n"), ("lit", ("long", 3))))]]


def gen_body(rng, w, slotted):
    """a policy/template body; slotted: at least one slot in the scope"""
    def cons(var, want_slot):
        r = rng.random()
        ty = rng.choice(gen.TYPES[:3])
        if want_slot:
            return rng.choice([("eq", "slot"), ("in", "slot"), ("isin", ty, "slot")])
        u = rng.choice(w.uids)
        return rng.choice([("any",), ("any",), ("eq", u), ("in", u), ("is", ty), ("isin", ty, u)])
    sp = sr = False
    if slotted:
        k = rng.choice(["p", "r", "pr", "pr"])
        sp, sr = "p" in k, "r" in k
    return {"effect": rng.choice(["permit", "permit", "forbid"]),
            "principal": cons("principal", sp),
            "action": rng.choice([("any",), ("any",), ("eq", w.request["action"]), ("in", [w.actions[0], w.actions[1]])]),
            "resource": cons("resource", sr),
            "conds": rng.choice(conds_pool(w)), "annotations": rng.choice(ANNOTS)}


def slots_of(body):
    out = []
    for var in ("principal", "resource"):
        c = body[var]
        if c[-1] == "slot":
            out.append(var)
    return out


def subst(body, env):
    """the hand-substituted static policy: the linked entity written in place of each slot"""
    b = dict(body)
    d = dict(env)
    for var in ("principal", "resource"):
        c = body[var]
        if c[-1] == "slot" and var in d:
            b[var] = c[:-1] + (d[var],)
    return b


def with_id(body, i):
    b = dict(body)
    b["id"] = i
    return b


def text(body):
    return cedar.policy_text(with_id(body, "x"))


def body_key(body):
    return json.dumps([body["effect"], body["principal"], body["action"], body["resource"], body["conds"],
                       body["annotations"]], default=repr, sort_keys=True)


# ------------------------------------------------------------------ generation of histories
def gen_env(rng, w, slots, mode=None):
    mode = mode or rng.choice(["ok"] * 6 + ["missing", "extra", "wrong", "empty"])
    env = [(s, rng.choice(w.uids)) for s in slots]
    if mode == "missing" and env:
        env.pop(rng.randrange(len(env)))
    elif mode == "extra":
        for s in ("principal", "resource"):
            if s not in slots:
                env.append((s, rng.choice(w.uids)))
                break
    elif mode == "wrong" and len(slots) == 1:
        other = "resource" if slots[0] == "principal" else "principal"
        env = [(other, rng.choice(w.uids))]
    elif mode == "empty":
        env = []
    rng.shuffle(env)
    return env


def gen_ops(rng, w, statics, templates, n, level, allow_merge=True, known=None):
    """known: template ids (id -> body) believed present, to make successful links frequent"""
    ops = []
    known = dict(known or {})
    for _ in range(n):
        k = rng.choice(["add"] * 4 + ["add_template"] * 4 + ["link"] * 7 + ["unlink"] * 3 + ["remove_static"] * 3 +
                       ["remove_template"] * 3 + ["add_stashed"] + (["merge"] * 3 if allow_merge else []))
        i = rng.choice(POOL)
        if k == "add":
            body = rng.choice(statics[:-2]) if rng.random() < 0.93 else rng.choice(templates)
            op = {"op": "add", "id": i, "body": body}
            if level == "ast":
                op["via"] = rng.choice(["add", "add_static"])
            ops.append(op)
        elif k == "add_template":
            # slotless templates: API -> Template::parse rejects them; core level: not generated (ast::PolicySet
            # accepts them but its bookkeeping treats them as static policies without a link; see notes/C08.md)
            slotless = level == "api" and rng.random() < 0.07
            body = rng.choice(statics[-2:]) if slotless else rng.choice(templates)
            ops.append({"op": "add_template", "id": i, "body": body})
            if not slotless:
                known.setdefault(i, body)
        elif k == "link":
            tid = rng.choice(list(known)) if known and rng.random() < 0.75 else rng.choice(POOL)
            slots = slots_of(known[tid]) if tid in known else rng.choice([["principal"], ["resource"], ["principal", "resource"]])
            ops.append({"op": "link", "template": tid, "id": i, "env": gen_env(rng, w, slots)})
        elif k == "add_stashed":
            ops.append({"op": "add_stashed", "k": rng.randrange(4)})
        elif k == "merge":
            other = gen_ops(rng, w, statics, templates, rng.randint(1, 6), level, allow_merge=False,
                            known=known if rng.random() < 0.5 else None)
            ops.append({"op": "merge", "rename": rng.random() < 0.6, "other": other})
        else:
            ops.append({"op": k, "id": i})
    return ops


def gen_case(rng, level, nops=None):
    w = gen.World(rng)
    statics = [gen_body(rng, w, False) for _ in range(6)]
    # the last two bodies are used only as slotless templates (API: rejected by Template::parse; core: accepted);
    # they are kept apart from the static-policy bodies: ast::PolicySet::add would absorb an equal slotless template
    for b in statics[-2:]:
        b["annotations"] = [("slotless", "1")]
    templates = [gen_body(rng, w, True) for _ in range(4)]
    q2 = dict(w.request, principal=rng.choice(w.uids))
    q3 = dict(w.request, resource=rng.choice(w.uids), action=rng.choice(w.actions))
    init = None
    known = None
    if level == "api" and rng.random() < 0.3:
        # start from PolicySet::from_json_value: static ids named by templateLinks, slot-less entries under
        # "templates", ids shared between the three sections, links with missing / extra values
        st, tp, ln = {}, {}, []
        for _ in range(rng.choice([0, 1, 1, 2])):
            st[rng.choice(POOL)] = rng.choice(statics[:-2])
        for _ in range(rng.choice([0, 1, 1, 2])):
            tp[rng.choice(POOL)] = rng.choice(statics[-2:]) if rng.random() < 0.2 else rng.choice(templates)
        for _ in range(rng.choice([0, 1, 1, 2, 3])):
            cands = list(tp) * 3 + list(st) + [rng.choice(POOL)]
            tid = rng.choice(cands)
            slots = slots_of(tp[tid]) if tid in tp else []
            ln.append({"template": tid, "id": rng.choice(POOL), "env": gen_env(rng, w, slots)})
        init = {"statics": sorted(st.items()), "templates": sorted(tp.items()), "links": ln}
        known = {i: b for i, b in tp.items() if slots_of(b)}
    ops = gen_ops(rng, w, statics, templates, nops or rng.randint(6, 18), level, known=known)
    return {"level": level, "world": w, "requests": [w.request, q2, q3], "ops": ops, "init": init}


# ------------------------------------------------------------------ commands
def env_json(env):
    return [[s, cedar.uid_json(u)] for s, u in env]


def op_json(op):
    o = {k: v for k, v in op.items() if k not in ("body", "env", "other")}
    if "body" in op:
        o["text"] = text(op["body"])
    if "env" in op:
        o["env"] = env_json(op["env"])
    if "other" in op:
        o["other"] = [op_json(x) for x in op["other"]]
    return o


def init_ops(case):
    """the EST sections as the operations the conversion performs, in its order"""
    i = case.get("init")
    if not i:
        return []
    return ([{"op": "add", "id": k, "body": b, "via": "add"} for k, b in i["statics"]] +
            [{"op": "add_template", "id": k, "body": b} for k, b in i["templates"]] +
            [{"op": "link", "template": l["template"], "id": l["id"], "env": l["env"]} for l in i["links"]])


def collect_probes(case):
    """every hand-substituted static text that can occur: static bodies, and template bodies under each env used"""
    probes = {}
    tbodies = {}

    def walk(ops):
        for op in ops:
            if op["op"] in ("add", "add_template"):
                b = op["body"]
                tbodies[body_key(b)] = b
                if not slots_of(b):
                    probes[body_key(b)] = b
            if op["op"] == "merge":
                walk(op["other"])
    walk(init_ops(case) + case["ops"])

    def walk2(ops):
        for op in ops:
            if op["op"] == "link":
                for b in list(tbodies.values()):
                    sb = subst(b, op["env"])
                    if not slots_of(sb):
                        probes[body_key(sb)] = sb
            if op["op"] == "merge":
                walk2(op["other"])
    walk2(init_ops(case) + case["ops"])
    return probes


def rust_cmd(case):
    w = case["world"]
    probes = collect_probes(case)
    return {"cmd": "pset_history", "level": case["level"], "universe": POOL + ["policy2", "policy3"],
            "requests": [cedar.request_json(q) for q in case["requests"]],
            "entities": cedar.entities_json(w.entities),
            "ops": [op_json(o) for o in case["ops"]],
            "probes": [{"key": k, "text": text(b)} for k, b in sorted(probes.items())],
            **({"init": {"statics": [{"id": i, "text": text(b)} for i, b in case["init"]["statics"]],
                         "templates": [{"id": i, "text": text(b)} for i, b in case["init"]["templates"]],
                         "links": [{"template": l["template"], "id": l["id"], "env": env_json(l["env"])}
                                   for l in case["init"]["links"]]}} if case.get("init") else {})}


# ------------------------------------------------------------------ model side
def op_sx(op):
    k = op["op"]
    if k in ("add", "add_template"):
        b = with_id(dict(op["body"], annotations=sorted(op["body"]["annotations"])), op["id"])
        name = "addvia" if (k == "add" and op.get("via") == "add") else k
        return [Sym(name), cedar.template_sx(b)]
    if k == "link":
        return [Sym("link"), Str(op["template"]), Str(op["id"]), cedar.slots_sx(op["env"])]
    if k == "add_stashed":
        return [Sym("add_stashed"), op["k"]]
    if k == "merge":
        return [Sym("merge"), Sym("true" if op["rename"] else "false"), [op_sx(o) for o in op["other"]]]
    return [Sym(k), Str(op["id"])]


def model_cmd(case):
    w = case["world"]
    base = [Sym("pset_history"), Sym(case["level"]), cedar.entities_sx(w.entities),
            [cedar.request_sx(q) for q in case["requests"]], [op_sx(o) for o in case["ops"]]]
    if case.get("init"):
        base.append([op_sx(o) for o in init_ops(case)])
    return base


def sx_uid(s):
    return [tuple(x.text() for x in s[1]), s[2].text()]


def canon_model_step(s, level):
    def pol(e):
        return (e[0].text(), e[1].text(), str(e[2]) == "true", e[3].text(),
                tuple(sorted((str(x[0]), tuple(sx_uid(x[1]))) for x in e[4])), str(e[5]),
                tuple(sorted((a[0].text(), a[1].text()) for a in e[6])))

    def tpl(e):
        return (e[0].text(), e[1].text(), tuple(sorted(str(x) for x in e[2])), str(e[3]),
                tuple(sorted((a[0].text(), a[1].text()) for a in e[4])))
    out = {"result": str(s[1]), "renaming": tuple(sorted((a[0].text(), a[1].text()) for a in s[2])),
           "ast_links": tuple(sorted(pol(e) for e in s[5])), "ast_templates": tuple(sorted(tpl(e) for e in s[6])),
           "t2l": tuple(sorted((e[0].text(), tuple(sorted(x.text() for x in e[1]))) for e in s[7])),
           "responses": tuple((str(r[1]), tuple(sorted(x.text() for x in r[2])), tuple(sorted(ie[0].text() for ie in r[3])))
                              for r in s[8])}
    if level == "api":
        out["api_policies"] = tuple(sorted(pol(e) for e in s[3]))
        out["api_templates"] = tuple(sorted(tpl(e) for e in s[4]))
    return out


def canon_rust_step(st, level):
    def uidt(j):
        u = uid_of_json(j)
        return (tuple(u[1]), u[2])

    def pol(p, api):
        tid = p["template"] if not (api and p["static"]) else p["id"]
        return (p["id"], p["id"], p["static"], tid, tuple(sorted((s, uidt(u)) for s, u in p["env"])), p["effect"],
                tuple(sorted(tuple(a) for a in p["annotations"])))

    def tpl(t):
        return (t["id"], t["id"], tuple(sorted(t["slots"])), t["effect"], tuple(sorted(tuple(a) for a in t["annotations"])))
    out = {"result": st["result"], "renaming": tuple(sorted(tuple(x) for x in (st["renaming"] or []))),
           "ast_links": tuple(sorted(pol(p, False) for p in st["ast"]["links"])),
           "ast_templates": tuple(sorted(tpl(t) for t in st["ast"]["templates"])),
           "t2l": tuple(sorted((x[0], tuple(sorted(x[1]))) for x in st["ast"]["t2l"])),
           "responses": tuple((r[0], tuple(r[1]), tuple(r[2])) for r in st["responses"])}
    if level == "api":
        out["api_policies"] = tuple(sorted(pol(p, True) for p in st["api"]["policies"]))
        out["api_templates"] = tuple(sorted(tpl(t) for t in st["api"]["templates"]))
    return out


def correspondence(case, res, ms):
    """first difference between the model's and the implementation's step records, or None"""
    if "init_error" in res:
        if isinstance(ms, list) and len(ms) == 2 and str(ms[0]) == "init_error" and str(ms[1]) == res["init_error"]:
            return None
        return "from_json: implementation %r, model %r" % (res["init_error"], ms)
    if "steps" not in res:
        return "implementation did not run: %r" % (res,)
    if not isinstance(ms, list) or len(ms) != len(res["steps"]):
        return "model did not run: %r" % (ms if not isinstance(ms, list) else len(ms),)
    for n, (st, m) in enumerate(zip(res["steps"], ms)):
        r, mm = canon_rust_step(st, case["level"]), canon_model_step(m, case["level"])
        if r["result"] == "init":
            r["result"] = "ok"
        for k in r:
            if r[k] != mm[k]:
                return "step %d: %s differs: implementation %r, model %r" % (n, k, r[k], mm[k])
    return None


# ------------------------------------------------------------------ the abstract state (oracle)
class Abs:
    """finite map id -> ("static", body) | ("template", body) | ("link", tid, env(sorted tuple), template body)"""

    def __init__(self, level):
        self.level = level
        self.m = {}
        self.stash = []

    def copy(self):
        a = Abs(self.level)
        a.m = dict(self.m)
        a.stash = list(self.stash)
        return a

    def links_of(self, tid):
        return sorted(i for i, v in self.m.items() if v[0] == "link" and v[1] == tid)

    def predict(self, op):
        """(ok?, new map) according to the property; None for ok? means 'no prediction' """
        m = dict(self.m)
        k = op["op"]
        api = self.level == "api"
        if k == "add":
            if slots_of(op["body"]):
                return False, m
            if op["id"] in m:
                return False, m
            m[op["id"]] = ("static", body_key(op["body"]))
            return True, m
        if k == "add_template":
            if api and not slots_of(op["body"]):
                return False, m
            if op["id"] in m:
                return False, m
            m[op["id"]] = ("template", body_key(op["body"]))
            return True, m
        if k == "link":
            t = m.get(op["template"])
            if t is None or t[0] != "template":
                if not api and t is not None and t[0] == "static":
                    return None, m     # core level links to a static policy's body: outside the property's domain
                return False, m
            body = self.bodies[t[1]]
            if sorted(s for s, _ in op["env"]) != sorted(slots_of(body)):
                return False, m
            if op["id"] in m:
                return False, m
            m[op["id"]] = ("link", op["template"], tuple(sorted(op["env"])), t[1])
            return True, m
        if k == "unlink":
            v = m.get(op["id"])
            if v is None or v[0] != "link":
                return False, m
            del m[op["id"]]
            return True, m
        if k == "remove_static":
            v = m.get(op["id"])
            if v is None or v[0] != "static":
                return False, m
            del m[op["id"]]
            return True, m
        if k == "remove_template":
            v = m.get(op["id"])
            if v is None or v[0] != "template" or self.links_of(op["id"]):
                return False, m
            del m[op["id"]]
            return True, m
        return None, m


def outcome_of(resp):
    dec, reasons, errs = resp
    if errs:
        return "err"
    return "sat" if reasons else "unsat"


def expected_response(policies, probe, qi):
    """policies: list of (id, effect, probe key)"""
    sp, sf, er = [], [], []
    for i, eff, key in policies:
        o = outcome_of(probe[key]["responses"][qi])
        if o == "err":
            er.append(i)
        elif o == "sat":
            (sp if eff == "permit" else sf).append(i)
    dec = "allow" if sp and not sf else "deny"
    return [dec, sorted(sf if sf else sp), sorted(er)]


def check_case(case, res):
    """the property stated on the implementation's own results; returns (problem or None, stats)"""
    stats = {"ok": 0, "err": {}, "ops": {}, "links_live": 0, "merge_renamed": 0}
    if "steps" not in res and "init_error" not in res:
        return "harness did not run the history: %r" % (res,), stats
    level = case["level"]
    bodies = {}

    def reg(ops):
        for op in ops:
            if "body" in op:
                bodies[body_key(op["body"])] = op["body"]
            if op["op"] == "merge":
                reg(op["other"])
    reg(case["ops"])
    probe = {p["key"]: p for p in res.get("probes", [])}
    a = Abs(level)
    a.bodies = bodies
    prev = None
    untracked = False
    steps = res.get("steps", [])
    if case.get("init"):
        # from_json: Ok iff every section entry is acceptable in the conversion's order
        reg(init_ops(case))
        good = True
        for op in init_ops(case):
            if op["op"] == "add_template" and not slots_of(op["body"]):
                # slot-less entry under "templates": known finding C08:est-slotless-template-link territory
                return ("SLOTLESS", "from_json accepted/handled a slot-less entry under templates"), stats
            pr, mm = a.predict(op)
            if not pr:
                good = False
                break
            a.m = mm
        stats["ops"]["from_json"] = 1
        if "init_error" in res:
            stats["err"]["init:" + res["init_error"]] = 1
            if good:
                return "from_json failed with %s but every entry is acceptable" % res["init_error"], stats
            return None, stats
        if not good:
            return "from_json succeeded but an entry is not acceptable (abstract state %r)" % (sorted(a.m.items()),), stats
        bad = compare_dump(a, steps[0], level, probe)
        if bad:
            return "after from_json: %s" % bad, stats
        prev = {x: steps[0][x] for x in steps[0] if x not in ("result", "renaming", "to_json")}
        steps = steps[1:]
    for n, (op, st) in enumerate(zip(case["ops"], steps)):
        k = op["op"]
        ok = st["result"] == "ok"
        stats["ops"][k] = stats["ops"].get(k, 0) + 1
        if ok:
            stats["ok"] += 1
        else:
            stats["err"][st["result"]] = stats["err"].get(st["result"], 0) + 1
        dump = {x: st[x] for x in st if x not in ("result", "renaming", "to_json")}
        where = "op %d (%s)" % (n, k)
        # --- a failed operation changes nothing
        if not ok and prev is not None and canon_dump(dump) != canon_dump(prev):
            return "%s failed with %s but the observable state changed" % (where, st["result"]), stats
        if not ok and prev is None and (st["ast"]["links"] or st["ast"]["templates"]):
            return "%s failed on the empty set but left residue" % where, stats
        # --- Ok / Err as the property says
        pred, m2 = a.predict(op)
        if k == "add_stashed":
            if st["result"] == "skipped":
                pred = False
            elif a.stash:
                p = a.stash[op["k"] % len(a.stash)]
                pi, pv = p
                if pv[0] == "static":
                    pred = pi not in a.m
                    m2 = dict(a.m)
                    if pred:
                        m2[pi] = pv
                elif level == "api":
                    pred = False
                else:
                    tv = a.m.get(pv[1])
                    pred = pi not in a.m and (tv is None or (tv[0] == "template" and tv[1] == pv[3]))
                    m2 = dict(a.m)
                    if pred:
                        m2[pi] = pv
                        m2[pv[1]] = ("template", pv[3])
        if k == "merge":
            b = Abs(level)
            b.bodies = bodies
            for oop in op["other"]:
                pr, mm = b.predict(oop)
                if pr is None:
                    untracked = True     # other side not predictable (stash/link-to-static); give up tracking
                    break
                if pr:
                    if oop["op"] in ("unlink", "remove_static"):
                        b.stash.append((oop["id"], b.m[oop["id"]]))
                    b.m = mm
            if untracked:
                return None, stats
            conflicts = sorted(i for i in b.m if i in a.m and not same_content(a, b, i))
            ren = dict(st["renaming"] or [])
            if not op["rename"]:
                pred = not conflicts
                if ok and ren:
                    return "%s without renaming returned a renaming %r" % (where, ren), stats
            else:
                pred = True
            if ok:
                if sorted(ren) != conflicts:
                    return "%s: renamed ids %r but the conflicting ids are %r" % (where, sorted(ren), conflicts), stats
                vals = list(ren.values())
                if len(set(vals)) != len(vals) or any(v in a.m or v in b.m for v in vals):
                    return "%s: renaming %r is not injective/fresh" % (where, ren), stats
                stats["merge_renamed"] += len(ren)
                m2 = dict(a.m)
                for i, v in b.m.items():
                    if v[0] == "link":
                        v = ("link", ren.get(v[1], v[1]), v[2], v[3])
                    m2[ren.get(i, i)] = v
        if pred is None:
            return None, stats       # outside the tracked domain (core-level link to a static policy)
        if pred != ok:
            return "%s returned %s but the property implies %s (abstract state %r)" % (
                where, st["result"], "Ok" if pred else "an error", sorted(a.m.items())), stats
        if ok:
            if k in ("unlink", "remove_static"):
                a.stash.append((op["id"], a.m[op["id"]]))
            a.m = m2
        # --- the dump shows exactly the abstract state
        bad = compare_dump(a, st, level, probe)
        if bad:
            return "%s: %s" % (where, bad), stats
        stats["links_live"] += sum(1 for v in a.m.values() if v[0] == "link")
        prev = dump
    return None, stats


def same_content(a, b, i):
    x, y = a.m[i], b.m[i]
    if x[0] != y[0]:
        return False
    if x[0] == "link":
        # same link of the same template content
        return x[1:] == y[1:] and a.m.get(x[1]) == b.m.get(y[1])
    return x == y


def canon_dump(d):
    """iteration order of the maps is not part of the property: every list is sorted"""
    def norm(x):
        if isinstance(x, dict):
            return {k: norm(v) for k, v in x.items()}
        if isinstance(x, list):
            return sorted((norm(v) for v in x), key=lambda v: json.dumps(v, sort_keys=True))
        return x
    return json.dumps(norm(d), sort_keys=True)


def uid_of_json(j):
    return U(tuple(j["type"].split("::")), j["id"])


def compare_dump(a, st, level, probe):
    statics = sorted(i for i, v in a.m.items() if v[0] == "static")
    templates = sorted(i for i, v in a.m.items() if v[0] == "template")
    links = sorted(i for i, v in a.m.items() if v[0] == "link")
    bodies = a.bodies
    want_pol = {}
    for i in statics:
        b = bodies[a.m[i][1]]
        want_pol[i] = (True, i, [], b["effect"], sorted(map(list, b["annotations"])))
    for i in links:
        _, tid, env, tkey = a.m[i]
        b = bodies[tkey]
        want_pol[i] = (False, tid, sorted([s, list(u)] for s, u in env), b["effect"], sorted(map(list, b["annotations"])))

    def pol_view(lst, api):
        out = {}
        for p in lst:
            tid = p["template"]
            if api and p["static"]:
                tid = p["id"]       # API: template_id() is None for a static policy
            out.setdefault(p["id"], []).append((p["static"], tid, sorted([s, list(uid_of_json(u))] for s, u in p["env"]),
                                                p["effect"], sorted(p["annotations"])))
        return out
    views = [("ast.links", pol_view(st["ast"]["links"], False))]
    if level == "api":
        views.append(("api.policies", pol_view(st["api"]["policies"], True)))
    for name, got in views:
        if sorted(got) != sorted(want_pol):
            return "%s lists ids %r, the successful operations imply %r" % (name, sorted(got), sorted(want_pol))
        for i, v in got.items():
            if len(v) != 1:
                return "%s lists id %r twice" % (name, i)
            if v[0] != want_pol[i]:
                return "%s: policy %r is %r, expected %r (effect/annotations of a link are its template's)" % (name, i, v[0], want_pol[i])
    # templates
    ast_t = sorted(t["id"] for t in st["ast"]["templates"])
    if ast_t != sorted(statics + templates):
        return "ast templates %r, expected %r" % (ast_t, sorted(statics + templates))
    for t in st["ast"]["templates"]:
        v = a.m[t["id"]]
        b = bodies[v[1]]
        if (sorted(t["slots"]), t["effect"], sorted(t["annotations"])) != (sorted(slots_of(b)), b["effect"], sorted(map(list, b["annotations"]))):
            return "ast template %r shows %r" % (t["id"], t)
    slotted = sorted(i for i in templates if slots_of(bodies[a.m[i][1]]))
    if sorted(st["ast"]["slotted"]) != slotted:
        return "ast.templates() = %r, expected %r" % (sorted(st["ast"]["slotted"]), slotted)
    if sorted(st["ast"]["statics"]) != statics:
        return "ast.static_policies() = %r, expected %r" % (sorted(st["ast"]["statics"]), statics)
    want_t2l = sorted([i, [i]] for i in statics) + [[i, a.links_of(i)] for i in templates]
    if sorted(st["ast"]["t2l"]) != sorted(want_t2l):
        return "get_linked_policies shows %r, expected %r (no link without its template, no stale link)" % (st["ast"]["t2l"], sorted(want_t2l))
    if sorted(st["ast"]["get"]) != sorted([i, i] for i in statics + links):
        return "ast.get() disagrees with the listing: %r" % (st["ast"]["get"],)
    if sorted(st["ast"]["get_template"]) != sorted([i, i] for i in statics + templates):
        return "ast.get_template() disagrees with the listing: %r" % (st["ast"]["get_template"],)
    # no id shared
    if set(links) & set(templates) or set(statics) & set(templates):
        return "an id is shared between a template and a policy"
    if level == "api":
        api = st["api"]
        at = sorted(t["id"] for t in api["templates"])
        if at != templates:
            return "api.templates() = %r, expected %r" % (at, templates)
        for t in api["templates"]:
            b = bodies[a.m[t["id"]][1]]
            if (sorted(t["slots"]), t["effect"], sorted(t["annotations"])) != (sorted(slots_of(b)), b["effect"], sorted(map(list, b["annotations"]))):
                return "api template %r shows %r" % (t["id"], t)
        if sorted(api["linked"]) != sorted(want_t2l):
            return "api.get_linked_policies shows %r, expected %r" % (api["linked"], sorted(want_t2l))
        if sorted(api["get"]) != sorted([i, i] for i in statics + links):
            return "api.policy() disagrees: %r" % (api["get"],)
        if sorted(api["get_template"]) != sorted([i, i] for i in templates):
            return "api.template() disagrees: %r" % (api["get_template"],)
        if api["num_policies"] != len(statics) + len(links) or api["num_templates"] != len(templates):
            return "api counts %r/%r" % (api["num_policies"], api["num_templates"])
        if api["is_empty"] != (not a.m):
            return "api.is_empty() = %r" % api["is_empty"]
    # authorization considers exactly the listed policies; a link answers as its hand-substituted static policy
    pols = []
    for i in statics:
        pols.append((i, bodies[a.m[i][1]]["effect"], a.m[i][1]))
    for i in links:
        _, tid, env, tkey = a.m[i]
        sb = subst(bodies[tkey], env)
        pols.append((i, sb["effect"], body_key(sb)))
    for qi, got in enumerate(st["responses"]):
        want = expected_response(pols, probe, qi)
        if got != want:
            return "response %d is %r; the listed policies (links hand-substituted) give %r" % (qi, got, want)
    return None


# ------------------------------------------------------------------ shrinking
def shrink(case, harness, fails):
    """drop operations while the oracle still fails"""
    cur = case
    changed = True
    while changed and len(cur["ops"]) > 1:
        changed = False
        for i in range(len(cur["ops"]) - 1, -1, -1):
            cand = dict(cur, ops=cur["ops"][:i] + cur["ops"][i + 1:])
            r = fw.run_rust(harness, [rust_cmd(cand)])[0]
            if fails(cand, r):
                cur = cand
                changed = True
                break
    return cur


def describe(case):
    return {"level": case["level"], "rust_cmd": rust_cmd(case)}


# the core-level finding: ast::PolicySet::link accepts a static policy's id as the template
FINDING_OPS = [{"op": "add", "id": "a", "body": None, "via": "add_static"},
               {"op": "link", "template": "a", "id": "b", "env": []},
               {"op": "remove_static", "id": "a"}]


def slotless_inconsistent(step):
    api_t = {t["id"] for t in step["api"]["templates"]}
    ast_t = {t["id"] for t in step["ast"]["templates"]}
    statics = {p["id"] for p in step["api"]["policies"] if p["static"]}
    dangling = [p["id"] for p in step["api"]["policies"] if not p["static"] and p["template"] not in api_t]
    hidden = sorted(ast_t - api_t - statics)
    return bool(dangling or hidden)


Q0 = {"principal": {"type": "User", "id": "a"}, "action": {"type": "Action", "id": "v"},
      "resource": {"type": "User", "id": "a"}, "context": {}}
STATIC_TEXT = "permit(principal, action, resource);"


def explicit_probes(rep, harness):
    """the two findings of this property as fixed inputs.  A: a link against the body of a static policy
       (fixed by 3c064e2; key C08:link-to-static-policy-body).  B: slot-less entry under "templates" plus a
       link to it (key C08:est-slotless-template-link)."""
    base = {"cmd": "pset_history", "universe": ["p", "n", "t"], "requests": [Q0], "entities": [], "probes": []}
    a1 = dict(base, level="api", ops=[], init={"statics": [{"id": "p", "text": STATIC_TEXT}], "templates": [],
                                                   "links": [{"template": "p", "id": "n", "env": []}]})
    a2 = dict(base, level="ast", ops=[{"op": "add", "id": "p", "text": STATIC_TEXT, "via": "add_static"},
                                       {"op": "link", "template": "p", "id": "n", "env": []},
                                       {"op": "remove_static", "id": "p"}, {"op": "unlink", "id": "n"}])
    b = dict(base, level="api", ops=[{"op": "remove_template", "id": "t"}],
             init={"statics": [], "templates": [{"id": "t", "text": STATIC_TEXT}],
                   "links": [{"template": "t", "id": "n", "env": []}]})
    r1, r2, rb = fw.run_rust(harness, [a1, a2, b])
    out = {}
    # A1: from_json must refuse (an error), not panic and not build a link against a static policy's body
    out["A_from_json"] = "init_error:" + r1["init_error"] if "init_error" in r1 else ("panic" if "panic" in r1 else "accepted")
    if "init_error" not in r1:
        rep.violation({"property": PROP, "kind": "PolicySet::from_json_value with templateLinks naming a static policy is not refused",
                       "input": a1, "rust": r1}, key="C08:link-to-static-policy-body")
    # A2: the core sequence: link must fail, nothing may panic, no link without its template afterwards
    ok2 = "steps" in r2 and r2["steps"][1]["result"] != "ok" and not any(
        (not p["static"]) and p["template"] not in {t["id"] for t in s["ast"]["templates"]}
        for s in r2["steps"] for p in s["ast"]["links"])
    out["A_core"] = [s["result"] for s in r2["steps"]] if "steps" in r2 else r2
    if not ok2:
        rep.violation({"property": PROP, "kind": "ast::PolicySet: add_static; link against the static policy's body; remove_static; unlink — link accepted / dangling link / panic",
                       "input": a2, "rust": r2}, key="C08:link-to-static-policy-body")
    # B
    if "steps" in rb and slotless_inconsistent(rb["steps"][0]):
        out["B"] = "accepted, API view inconsistent"
        rep.violation({"property": PROP, "kind": "from_json accepts a slot-less entry under templates plus a link to it; templates()/template(id) do not show the link's template, remove_template says TemplateNonexistent",
                       "input": b, "rust": rb}, key="C08:est-slotless-template-link")
    else:
        out["B"] = "init_error:" + rb["init_error"] if "init_error" in rb else "consistent"
    return out


def run(rep, tier, seed):
    ob, dis, details, failures = (0, 0, {}, [])
    if THEOREMS:
        ob, dis, details, failures = fw.check_props(PROP_FILE, THEOREMS)
    harness = fw.build_harness()
    driver = fw.build_model_driver()
    rng = random.Random(seed)
    n_api = 700 if tier == "quick" else 12000
    n_ast = 400 if tier == "quick" else 8000
    cases = [gen_case(rng, "api") for _ in range(n_api)] + [gen_case(rng, "ast") for _ in range(n_ast)]
    probe_outcome = explicit_probes(rep, harness)
    rcmds = [rust_cmd(c) for c in cases]
    rres = fw.run_rust(harness, rcmds)
    mcmds = [model_cmd(c) for c in cases]
    mres = fw.run_model(driver, mcmds)
    ncorr = 0
    agg = {"ok": 0, "err": {}, "ops": {}, "links_live": 0, "merge_renamed": 0, "untracked_tail": 0}
    distinct = set()
    nviol = 0
    for ci, (c, r) in enumerate(zip(cases, rres)):
        bad, st = check_case(c, r)
        if isinstance(bad, tuple):
            # slot-less entry under "templates" accepted by from_json: the known finding when the API view
            # is inconsistent (a link whose template the API does not list / a core template never shown)
            bad = None
            agg["slotless_init"] = agg.get("slotless_init", 0) + 1
            if "steps" in r and slotless_inconsistent(r["steps"][0]):
                rep.violation({"property": PROP, "kind": "from_json accepts a slot-less entry under templates; the API then shows a link without its template / hides the template",
                               "case": describe(c), "rust": r["steps"][0]}, key="C08:est-slotless-template-link")
        for k in ("ok", "links_live", "merge_renamed"):
            agg[k] += st[k]
        for k in ("err", "ops"):
            for x, y in st[k].items():
                agg[k][x] = agg[k].get(x, 0) + y
        if bad and nviol < 3:
            nviol += 1
            small = shrink(c, harness, lambda cc, rr: check_case(cc, rr)[0] is not None)
            rr = fw.run_rust(harness, [rust_cmd(small)])[0]
            rep.violation({"property": PROP, "kind": "policy-set history violates the property (oracle on the implementation)",
                           "what": check_case(small, rr)[0], "case": describe(small), "rust": rr})
        diff = correspondence(c, r, mres[cases.index(c)] if False else mres[ci])
        if diff and not bad and ncorr < 3:
            ncorr += 1
            small = shrink(c, harness, lambda cc, rr: correspondence(cc, rr, fw.run_model(driver, [model_cmd(cc)])[0]) is not None)
            rr = fw.run_rust(harness, [rust_cmd(small)])[0]
            rep.violation({"property": PROP, "kind": "implementation differs from the model (correspondence)",
                           "model function": "PolicySet.api_step / ast_step (coq/model/PolicySet.v)",
                           "rust entry point": "cedar_policy::PolicySet / ast::PolicySet operations via harness pset_history",
                           "what": correspondence(small, rr, fw.run_model(driver, [model_cmd(small)])[0]),
                           "theorems whose transfer is lost": THEOREMS, "case": describe(small)}, no_failing_input=True)
        if st["ok"] >= 3 and st["err"]:
            distinct.add(fw.case_hash(rcmds[len(distinct) % len(rcmds)] if False else describe(c)))
    nx = fw.coq_crosscheck(mcmds[:12], mres[:12], PROP)
    for f in failures:
        rep.violation({"property": PROP, "kind": "proof obligation no longer checks", "detail": f}, no_failing_input=True)
    nsteps = sum(len(c["ops"]) for c in cases)
    rep.coverage = {
        "obligations": ob, "discharged": dis,
        "checker_cmd": "make -C coq props/%s.vo (coqc 8.16.1) + Print Assumptions" % PROP_FILE,
        "trusted_base": fw.TRUSTED_BASE, "theorems": details,
        "evaluations": nsteps, "distinct_nontrivial": len(distinct),
        "rule": "%d API-level and %d core-level histories of 6-18 operations over the id pool %r (merge arguments are 1-6 operation sub-histories); after every operation the full public view is dumped and 3 requests are authorized; non-trivial = at least 3 successful and 1 failed operation" % (n_api, n_ast, POOL),
        "traces_validated_against_impl": len(cases), "vm_compute_crosscheck_cases": nx,
        "operation_histogram": agg["ops"], "ok_operations": agg["ok"], "error_histogram": agg["err"],
        "live_links_observed": agg["links_live"], "ids_renamed_by_merge": agg["merge_renamed"],
        "explicit_probes": probe_outcome, "from_json_starts": sum(1 for c in cases if c.get("init")),
        "from_json_slotless_template_cases": agg.get("slotless_init", 0),
        "samples": [describe(cases[0])],
    }
    rep.assumptions = ["error messages not compared, only classes", "policy ids from a 5-element pool; fresh ids policy<n>"]


def replay(rep, path):
    print(open(path).read()[:6000])
