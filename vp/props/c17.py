"""C17 — entity-manifest slicing keeps everything authorization needs.

   Streams
     H  hand-written schema (deep attribute chains, optional attributes, records containing entities, sets of
        entities, entity-typed context attributes, group hierarchies with indirect links) x a pool of policy
        shapes (attribute chains, has-guards, in / contains over sets of entities, records of entities then
        projected, if producing entities, ==, is, entity literals as roots, templates) x random conformant stores
        with extra entities / attributes;
     T  vp/tgen.py: random schemas, strictly valid random policies, conformant (request, store) pairs;
     N  near-miss stream: policies the analysis must refuse (tags -> UnsupportedCedarFeature; ill-typed ->
        Validation): recorded, not failures.
   Oracle (implementation only): same decision, determining policies and erroring policies (with error class)
     on the sliced store as on the full store, >= 20 (request, store) pairs per policy set.
   Correspondence: (a) Manifest.slice_by_manifest (Coq, extracted) vs EntityManifest::slice_entities on the
     Rust-computed manifest, entity by entity (attributes kept, ancestors kept); (b) the model's `adequate`
     validator decided on every Rust-computed manifest against the typed expressions the analysis ran on."""
import random

import cedar
import framework as fw
import schema as S
import texpr
import tgen
from cedar import U
from sx import Sym, Str

PROP = "C17"
PROP_FILE = "C17_Manifest"
THEOREMS = ["c17_slice_val_record_keys", "c17_slice_val_entity_kept", "c17_slice_entity_attrs_subset",
            "c17_slice_entity_no_tags", "c17_walk_app", "c17_adequate_getattr_covered_partial",
            "c17_adequate_sound_partial", "c17_response_sound_partial"]

MANIFEST = {
    "text": "Gallina transcription of the manifest data, of slicing by a manifest (loader.rs load_entities + slicing.rs slice_entity/slice_val + ancestors phase) and an independent path-coverage validator of the Rust analysis output; slice lemmas proved for all tries and values; tied to /repo by differential execution (model slice vs EntityManifest::slice_entities entity by entity; validator on every Rust-computed manifest) and by the implementation-level oracle (authorization response on sliced vs full store).",
    "technique": "proof (Coq) of slice lemmas + translation validation of manifests + correspondence by differential execution + metamorphic oracle on the implementation",
}

# ====================================================================== hand-written scenario
REC = lambda attrs: {"type": "Record", "attributes": attrs}  # noqa: E731
ENT = lambda n: {"type": "Entity", "name": n}  # noqa: E731
SET = lambda t: {"type": "Set", "element": t}  # noqa: E731
OPT = lambda t: dict(t, required=False)  # noqa: E731
LONG, STRING, BOOL = {"type": "Long"}, {"type": "String"}, {"type": "Boolean"}

H_CTX = REC({"via": OPT(ENT("Group")), "delegate": ENT("User"), "info": REC({"src": STRING, "g": ENT("Group")}),
             "flag": BOOL})
H_SCHEMA = {"": {
    "entityTypes": {
        "Group": {"memberOfTypes": ["Group"], "shape": REC({"rank": LONG, "lead": OPT(ENT("User"))})},
        "User": {"memberOfTypes": ["Group"], "shape": REC({
            "name": STRING, "age": LONG, "manager": OPT(ENT("User")), "friend": OPT(ENT("User")),
            "groups": SET(ENT("Group")),
            "profile": REC({"nick": OPT(STRING), "team": ENT("Group"),
                            "address": REC({"city": STRING, "zip": OPT(LONG)})})})},
        "Folder": {"memberOfTypes": ["Folder"], "shape": REC({"owner": ENT("User")})},
        "Doc": {"memberOfTypes": ["Folder"], "shape": REC({
            "owner": ENT("User"), "viewers": SET(ENT("Group")), "folder": ENT("Folder"), "public": BOOL,
            "meta": REC({"author": ENT("User"), "labels": SET(STRING)})})},
    },
    "actions": {
        "write": {},
        "view": {"appliesTo": {"principalTypes": ["User"], "resourceTypes": ["Doc"], "context": H_CTX}},
        "edit": {"memberOf": [{"id": "write"}],
                 "appliesTo": {"principalTypes": ["User"], "resourceTypes": ["Doc"], "context": H_CTX}},
        "list": {"appliesTo": {"principalTypes": ["User"], "resourceTypes": ["Folder"], "context": REC({})}},
    }}}

# (scope, body); every body is strictly valid for the environments the scope admits
H_POOL = [
    ('principal, action, resource is Doc', 'resource.owner == principal'),
    ('principal, action, resource is Doc', 'principal in resource.viewers'),
    ('principal, action, resource is Doc', 'principal.profile.team in resource.viewers'),
    ('principal, action, resource is Doc', 'principal has manager && principal.manager has manager && principal.manager.manager.age > 3'),
    ('principal, action, resource is Doc', 'resource.owner has manager && resource.owner.manager == principal'),
    ('principal, action, resource is Doc', 'principal in resource.folder.owner.groups'),
    ('principal, action, resource is Doc', 'principal has manager && {a: principal.manager, b: resource.owner}.b.age > 1'),
    ('principal, action, resource is Doc', 'principal has manager && {a: principal.manager, b: resource.owner}.a.profile.address.city == "c"'),
    ('principal, action, resource is Doc', '(if resource.public then resource.owner else principal).profile.address.city == "c"'),
    ('principal, action, resource is Doc', '(if resource.public then resource.owner else principal) in resource.viewers'),
    ('principal, action, resource is Doc', 'principal in (if resource.public then resource.viewers else principal.groups)'),
    ('principal, action in [Action::"view", Action::"edit"], resource', 'context.delegate has manager && context.delegate.manager == principal'),
    ('principal, action in [Action::"view", Action::"edit"], resource', 'context has via && principal in context.via'),
    ('principal, action in [Action::"view", Action::"edit"], resource', 'principal in context.info.g && context.flag'),
    ('principal, action in [Action::"view", Action::"edit"], resource', 'context.delegate.profile.team in resource.viewers'),
    ('principal, action in [Action::"view", Action::"edit"], resource', 'principal has manager && [principal.manager, resource.owner].contains(context.delegate)'),
    ('principal, action, resource is Doc', 'principal.groups.contains(resource.folder.owner.profile.team)'),
    ('principal, action, resource is Doc', 'principal.profile == resource.owner.profile'),
    ('principal, action, resource is Doc', 'resource.meta == {author: principal, labels: ["x"]}'),
    ('principal, action, resource is Doc', 'resource.meta.labels.contains("x") || principal.profile has nick && principal.profile.nick like "a*"'),
    ('principal, action, resource', 'principal in Group::"g1"'),
    ('principal, action, resource is Doc', 'resource in Folder::"f1" && principal.age >= 18'),
    ('principal, action, resource is Doc', 'principal in [Group::"g1", resource.owner.profile.team]'),
    ('principal, action, resource', 'action in Action::"write"'),
    ('principal, action in Action::"write", resource', 'principal.age < 40'),
    ('principal, action, resource is Doc', 'resource.owner has friend && resource.owner.friend has friend && resource.owner.friend.friend.name == "bob"'),
    ('principal, action, resource', 'User::"u1" has manager && User::"u1".manager in Group::"g2"'),
    ('principal, action, resource is Doc', 'User::"u1" in resource.viewers'),
    ('principal == User::"u1", action, resource is Doc', 'User::"u1".profile.team == resource.owner.profile.team'),
    ('principal, action, resource is Doc', 'principal.groups.isEmpty() || resource.viewers.containsAny(principal.groups)'),
    ('principal, action, resource is Doc', 'resource.viewers.containsAll(principal.groups)'),
    ('principal, action, resource', 'principal has manager && principal.manager in principal.profile.team'),
    ('principal, action, resource is Doc', 'principal.profile.team has lead && principal.profile.team.lead == resource.meta.author'),
    ('principal, action, resource is Doc', 'resource.folder in Folder::"f2" || resource.folder.owner.profile.team.rank > 1'),
    ('principal in Group::"g0", action, resource in Folder::"f0"', 'true'),
    ('principal is User in Group::"g2", action == Action::"list", resource', 'resource.owner == principal || resource.owner in principal.profile.team'),
    ('principal, action, resource is Doc', 'principal.profile.address has zip && principal.profile.address.zip + principal.age > 100'),
    ('principal, action, resource is Doc', 'principal has friend && principal.friend.profile.team in resource.owner.groups'),
    ('principal, action, resource is Doc', '{o: resource.owner}.o in {g: resource.viewers}.g'),
    ('principal, action, resource is Doc', 'principal has "manager" && (principal.manager.age > principal.age) == resource.public'),
    # one access path that is BOTH the right-hand side of an `in` (ancestors requested) and a prefix of / equal to another
    # access (attributes requested): the two tries are merged by AccessTrie::union_mut, in either order
    ('principal, action, resource', 'principal in principal.profile.team || (principal.profile.team has lead && principal.profile.team.lead.age > 1)'),
    ('principal, action, resource is Doc', 'principal in resource.owner.profile.team && resource.owner.profile.team.rank > 0'),
    ('principal, action, resource is Doc', 'resource.owner.profile.team.rank > 0 && principal in resource.owner.profile.team'),
    ('principal, action, resource is Doc', 'resource.viewers.contains(principal.profile.team) || principal in resource.viewers'),
    ('principal, action, resource is Doc', 'principal in resource.folder.owner.profile.team || resource.folder.owner.profile.team == principal.profile.team'),
    # the same left-hand entity tested with `in` against two access paths, one a strict prefix of the other: both live in
    # the ANCESTORS trie of that entity and the shorter path's node is merged from an ancestor and a non-ancestor request
    ('principal, action, resource is Doc', 'principal in resource.owner.profile.team || (resource.owner.profile.team has lead && principal in resource.owner.profile.team.lead.profile.team)'),
    ('principal, action, resource is Doc', '(resource.owner.profile.team has lead && principal in resource.owner.profile.team.lead.profile.team) || principal in resource.owner.profile.team'),
    ('principal, action, resource', 'principal in principal.profile.team || (principal.profile.team has lead && principal in principal.profile.team.lead.profile.team)'),
    ('principal, action in [Action::"view", Action::"edit"], resource', '(context.info.g has lead && principal in context.info.g.lead.profile.team) || principal in context.info.g'),
    # bare `has` (no later access re-adds the path): added after mutant M2 (HasAttr path dropped) escaped
    ('principal, action, resource', 'principal has manager'),
    ('principal, action, resource is Doc', '!(resource.owner has friend)'),
    ('principal, action in [Action::"view", Action::"edit"], resource', 'principal.profile has nick || context has via'),
    ('principal, action, resource is Doc', 'principal.profile.address has zip && resource.folder.owner.profile has nick'),
    ('principal, action, resource is Doc', 'if principal has friend then resource.public else resource.owner.profile.team has lead'),
]
# two policies whose access paths coincide (or one extends the other) with different demands: merged across policies
H_PAIRS = [
    (('principal, action, resource is Doc', 'principal in resource.viewers'),
     ('principal, action, resource is Doc', 'resource.viewers.containsAll(principal.groups)')),
    (('principal, action, resource is Doc', 'resource.owner.profile.team.rank > 3'),
     ('principal, action, resource is Doc', 'principal in resource.owner.profile.team')),
    (('principal, action, resource', 'principal in principal.profile.team'),
     ('principal, action, resource', 'principal.profile.team has lead && principal.profile.team.lead == principal')),
    (('principal, action in [Action::"view", Action::"edit"], resource', 'principal in context.info.g'),
     ('principal, action in [Action::"view", Action::"edit"], resource', 'context.info.g.rank > 0')),
]
H_PAIRS.append((('principal, action, resource is Doc', 'principal in resource.owner.profile.team'),
                ('principal, action, resource is Doc', 'resource.owner.profile.team has lead && principal in resource.owner.profile.team.lead.profile.team')))
H_TEMPLATES = [
    ('principal in ?principal, action, resource == ?resource', 'true', {"principal": ("Group", "g"), "resource": ("Doc", "d")}),
    ('principal == ?principal, action, resource in ?resource', 'resource.owner == principal', {"principal": ("User", "u"), "resource": ("Folder", "f")}),
    ('principal in ?principal, action, resource', 'principal.age > 1', {"principal": ("Group", "g")}),
]
# refused by the analysis (recorded, not failures)
H_REFUSED = [
    ('principal, action, resource', 'principal.age > "x"', "Validation"),
    ('principal, action, resource', 'principal.nope == 1', "Validation"),
    ('principal, action, resource', 'principal.manager.age > 3', "Validation"),
]

NU, NG, ND, NF = 5, 4, 3, 3


class HStore:
    """random store conformant to H_SCHEMA; ids u0.., g0.., d0.., f0..; parents only to higher indices (acyclic)"""

    def __init__(self, r):
        self.r = r

    def u(self, ty, n):
        return U((ty,), "%s%d" % (ty[0].lower(), self.r.randrange(n + 1)))   # index n is never in the store

    def pe(self, u):
        return ("prim", ("entity", u))

    def user(self):
        return self.pe(self.u("User", NU))

    def group(self):
        return self.pe(self.u("Group", NG))

    def gset(self):
        r = self.r
        return ("set", [self.group() for _ in range(r.choice([0, 1, 2, 3]))])

    def opt(self, k, v, p=0.55):
        return [(k, v)] if self.r.random() < p else []

    def attrs(self, ty):
        r = self.r
        S_ = lambda s: ("prim", ("string", s))  # noqa: E731
        L_ = lambda z: ("prim", ("long", z))  # noqa: E731
        if ty == "Group":
            return sorted([("rank", L_(r.randrange(4)))] + self.opt("lead", self.user()))
        if ty == "User":
            addr = sorted([("city", S_(r.choice(["c", "d"])))] + self.opt("zip", L_(r.choice([1, 99, 2 ** 63 - 1]))))
            prof = sorted([("team", self.group()), ("address", ("record", addr))] + self.opt("nick", S_(r.choice(["ab", "b"]))))
            return sorted([("name", S_(r.choice(["bob", "al"]))), ("age", L_(r.choice([2, 17, 18, 50]))),
                           ("groups", self.gset()), ("profile", ("record", prof))]
                          + self.opt("manager", self.user()) + self.opt("friend", self.user()))
        if ty == "Folder":
            return [("owner", self.user())]
        meta = sorted([("author", self.user()), ("labels", ("set", [S_(x) for x in r.sample(["x", "y", "z"], r.randrange(3))]))])
        return sorted([("owner", self.user()), ("viewers", self.gset()), ("folder", self.pe(self.u("Folder", NF))),
                       ("public", ("prim", ("bool", r.random() < 0.5))), ("meta", ("record", meta))])

    def gen(self, action):
        r = self.r
        ents = []
        for ty, n, pty in (("User", NU, "Group"), ("Group", NG, "Group"), ("Folder", NF, "Folder"), ("Doc", ND, "Folder")):
            pn = {"Group": NG, "Folder": NF}[pty]
            for i in range(n):
                if r.random() < 0.1:
                    continue                                   # absent entity (dangling references)
                lo = i + 1 if ty == pty else 0
                cands = [U((pty,), "%s%d" % (pty[0].lower(), j)) for j in range(lo, pn + 1)]
                ps = [p for p in cands if r.random() < 0.35]
                ents.append({"uid": U((ty,), "%s%d" % (ty[0].lower(), i)), "attrs": self.attrs(ty), "tags": [],
                             "parents": ps})
        if r.random() < 0.9:
            for a in ("view", "edit", "list", "write"):
                ents.append({"uid": U(("Action",), a), "attrs": [], "tags": [],
                             "parents": [U(("Action",), "write")] if a == "edit" else []})
        rty = "Folder" if action == "list" else "Doc"
        ctx = []
        if action != "list":
            info = sorted([("src", ("prim", ("string", "s"))), ("g", self.group())])
            ctx = sorted([("delegate", self.user()), ("info", ("record", info)), ("flag", ("prim", ("bool", r.random() < 0.7)))]
                         + self.opt("via", self.group()))
        q = {"principal": self.u("User", NU), "action": U(("Action",), action),
             "resource": self.u(rty, NF if rty == "Folder" else ND), "context": ctx}
        return q, ents


def h_policy_sets(r, n):
    out = []
    for k in range(n):
        m = r.choice([1, 1, 2, 3, 4])
        pols, tpls = [], []
        for i in range(m):
            eff = r.choice(["permit", "permit", "forbid"])
            if r.random() < 0.12:
                scope, body, slots = r.choice(H_TEMPLATES)
                tid = "t%d" % i
                tpls.append({"id": tid, "text": "%s(%s) when { %s };" % (eff, scope, body)})
                sl = {}
                for s, (ty, pre) in slots.items():
                    sl["?" + s] = cedar.uid_json(U((ty,), "%s%d" % (pre, r.randrange(3))))
                pols.append({"id": "p%d" % i, "template": tid, "slots": sl})
            else:
                scope, body = r.choice(H_POOL) if k >= len(H_POOL) or i > 0 else H_POOL[k]
                kw = r.choice(["when", "when", "when", "unless"])
                b = body if kw == "when" else "!(%s)" % body
                pols.append({"id": "p%d" % i, "text": "%s(%s) %s { %s };" % (eff, scope, kw, b)})
        out.append({"schema": H_SCHEMA, "templates": tpls, "policies": pols, "stream": "H"})
    # the recorded finding c17-oracle-static-false-error, reached on every run (printed as KNOWN-FINDING)
    out.append({"schema": H_SCHEMA, "templates": [], "stream": "H", "policies": [
        {"id": "p0", "text": "permit(principal, action, resource is Doc) unless { principal.profile has team };"}]})
    for (a, b) in H_PAIRS:
        for x, y in ((a, b), (b, a)):
            out.append({"schema": H_SCHEMA, "templates": [], "stream": "H", "policies": [
                {"id": "p0", "text": "permit(%s) when { %s };" % x}, {"id": "p1", "text": "permit(%s) when { %s };" % y}]})
    return out


# ====================================================================== manifest JSON -> model S-expression
def _name(s):
    return tuple(s.split("::"))


def _muid(j):
    return U(_name(j["ty"]), j["eid"])


def root_sx(j):
    if "var" in j:
        return [Sym("var"), Sym(j["var"])]
    return [Sym("lit"), cedar.uid_sx(_muid(j["literal"]))]


def trie_sx(j):
    ch = sorted(j["children"], key=lambda kv: kv[0])
    return [Sym("trie"), [[Str(k), trie_sx(t)] for k, t in ch], rtrie_sx(j["ancestorsTrie"]),
            Sym("true" if j["isAncestor"] else "false")]


def rtrie_sx(j):
    return [[root_sx(r), trie_sx(t)] for r, t in sorted(j["trie"], key=lambda rt: repr(rt[0]))]


def manifest_sx(j):
    out = []
    for rt, tr in sorted(j["perAction"], key=lambda x: repr(x[0])):
        out.append([[cedar.name_sx(_name(rt["principal"])), cedar.uid_sx(_muid(rt["action"])),
                     cedar.name_sx(_name(rt["resource"]))], rtrie_sx(tr)])
    return out


def trie_stats(j, acc):
    acc["nodes"] += 1
    if j["isAncestor"]:
        acc["is_ancestor"] += 1
    if j["ancestorsTrie"]["trie"]:
        acc["ancestor_tries"] += 1
        for _, t in j["ancestorsTrie"]["trie"]:
            trie_stats(t, acc)
    d = 0
    for _, t in j["children"]:
        d = max(d, trie_stats(t, acc))
    return d + 1


# ====================================================================== canonical slices
def _cuid(j):
    return (tuple(tuple(c) for c in j["type"]), tuple(j["id"]))


def canon_slice_rust(js):
    out = {}
    for e in js:
        out[_cuid(e["uid"])] = (tuple((tuple(k), cedar.canon_value_from_rust(v)) for k, v in e["attrs"]),
                                tuple(tuple(t) for t in e["tags"]),
                                tuple(sorted(_cuid(a) for a in e["ancestors"])))
    return out


def canon_slice_model(s):
    if not (isinstance(s, list) and s and s[0] == "ok"):
        return ("model_error", repr(s)[:300])
    out = {}
    for e in s[1]:
        u = (tuple(tuple(c) for c in e[1][1]), tuple(e[1][2]))
        out[u] = (tuple(sorted((tuple(kv[0]), cedar.canon_value_from_model(kv[1])) for kv in e[2])),
                  tuple(tuple(t) for t in e[3]),
                  tuple(sorted(set((tuple(tuple(c) for c in a[1]), tuple(a[2])) for a in e[4]))))
    return out


# ====================================================================== tgen stream
def t_policy_sets(r, n_schemas, per_schema):
    out = []
    for _ in range(n_schemas):
        sg = tgen.gen_schema(r)
        for _ in range(per_schema):
            m = r.choice([1, 1, 2, 3])
            pols, tpls, envs, hints = [], [], [], []
            env0 = r.choice(tgen.request_envs(sg.rs))
            for i in range(m):
                env = env0 if r.random() < 0.7 else None
                near = r.random() < 0.06
                p = tgen.gen_policy(r, sg.rs, well_typed=not near, env=env, depth=r.choice([2, 3, 3, 4]), pid="p%d" % i)
                text = tgen.policy_text(p)
                if p.is_template:
                    tid = "t%d" % i
                    tpls.append({"id": tid, "text": text})
                    pols.append({"id": "p%d" % i, "template": tid,
                                 "slots": {"?" + k: cedar.uid_json(u) for k, u in p.slots.items()}})
                else:
                    pols.append({"id": "p%d" % i, "text": text})
                envs.append(p.env)
                hints.extend(tgen.policy_uids(p))
            out.append({"schema": sg.js, "rs": sg.rs, "templates": tpls, "policies": pols, "stream": "T", "envs": envs,
                        "hints": hints})
    return out


def base_cmd(ps):
    return {"schema_json": ps["schema"], "templates": ps["templates"], "policies": ps["policies"]}


def pairs_for(r, ps, n):
    out = []
    for _ in range(n):
        if ps["stream"] == "H":
            out.append(HStore(r).gen(r.choice(["view", "view", "edit", "edit", "list"])))
        else:
            env = r.choice(ps["envs"])
            out.append(tgen.gen_env(r, ps["rs"], env, ps["hints"], p_present=r.choice([0.85, 0.95, 1.0])))
    return out


def describe(ps, q=None, es=None):
    d = {"schema_json": ps["schema"], "templates": ps["templates"], "policies": ps["policies"], "stream": ps["stream"]}
    if q is not None:
        d["request"] = cedar.request_json(q)
        d["entities"] = cedar.entities_json(es)
    return d


import re

SLOT_IN = re.compile(r"\bin\s+\?(principal|resource)")


def differing_ids(full, sl):
    ids = set(full["reasons"]) ^ set(sl["reasons"])
    ids |= {e[0] for e in (set(map(tuple, full["errors"])) ^ set(map(tuple, sl["errors"])))}
    return ids


def restrict(ps, ids):
    pols = [p for p in ps["policies"] if p["id"] in ids]
    used = {p.get("template") for p in pols}
    return dict(ps, policies=pols, templates=[t for t in ps["templates"] if t["id"] in used])


def classify(harness, ps, q, es, full, sl):
    """stable class of an oracle failure (used as known-finding key).  The response lists only the DETERMINING
       policies, so a decision flip changes the reason set of policies that are not at fault: every differing
       policy is therefore re-run ALONE (its own manifest, same request and store) and counts as a culprit only
       if it still differs.
         template-slot-in      : a culprit is a link of a template whose scope has `in ?principal|?resource`
         static-false-error    : a culprit differs only in the erroring set and is statically False
                                 (PolicyCheck::Irrelevant) for the request's environment
         other                 : any other culprit
         interaction           : no single policy differs on its own"""
    ids = sorted(differing_ids(full, sl))
    tpl = {t["id"]: t["text"] for t in ps["templates"]}
    res = fw.run_rust(harness, [dict(base_cmd(restrict(ps, {i})), cmd="manifest_slice", request=cedar.request_json(q),
                                     entities=cedar.entities_json(es)) for i in ids])
    classes = set()
    for i, rr in zip(ids, res):
        if "sliced" not in rr or rr["full"] == rr["sliced"]:
            continue
        p = [x for x in ps["policies"] if x["id"] == i][0]
        f1, s1 = rr["full"], rr["sliced"]
        if "template" in p and SLOT_IN.search(tpl[p["template"]]):
            classes.add("template-slot-in")
        elif f1["reasons"] == s1["reasons"] and f1["decision"] == s1["decision"] and irrelevant_in_env(ps, i, q):
            classes.add("static-false-error")
        else:
            classes.add("other")
    return "+".join(sorted(classes)) or "interaction"


def irrelevant_in_env(ps, pid, q):
    cp = lambda s: [ord(c) for c in s]  # noqa: E731
    for pol in ps.get("typed", []):
        if pol["id"] != pid:
            continue
        for e in pol["envs"]:
            env = e["env"]
            if env["principal"] == [cp(c) for c in q["principal"][1]] and env["resource"] == [cp(c) for c in q["resource"][1]] \
                    and env["action"]["type"] == [cp(c) for c in q["action"][1]] and env["action"]["id"] == cp(q["action"][2]):
                return e["result"] == "irrelevant"
    return False


def shrink(harness, ps, q, es, full, sl):
    """keep only the differing policies (and their templates), then delete entities while the oracle still fails"""
    def run1(ps_, ess):
        return fw.run_rust(harness, [dict(base_cmd(ps_), cmd="manifest_slice", request=cedar.request_json(q),
                                          entities=cedar.entities_json(e_)) for e_ in ess])
    ids = differing_ids(full, sl)
    ps2 = restrict(ps, ids)
    rr = run1(ps2, [es])[0]
    if "sliced" not in rr or rr["full"] == rr["sliced"]:
        ps2, rr = ps, run1(ps, [es])[0]
    cur = list(es)
    for _ in range(60):
        cands = [cur[:i] + cur[i + 1:] for i in range(len(cur))]
        res = run1(ps2, cands)
        nxt = None
        for c, r_ in zip(cands, res):
            if "sliced" in r_ and r_["full"] != r_["sliced"]:
                nxt, rr = c, r_
                break
        if nxt is None:
            break
        cur = nxt
    return ps2, cur, rr.get("full"), rr.get("sliced"), rr


def run_sets(rep, sets, npairs, r, harness, driver, stats):
    # one harness command per policy set: the manifest is computed once, then every pair is sliced / authorized
    _c0 = _cpu()
    for ps in sets:
        ps["pairs"] = pairs_for(r, ps, npairs)
    _gen = round(_cpu() - _c0, 1)
    _c0 = _cpu()
    mres = fw.run_rust(harness, [dict(base_cmd(ps), cmd="manifest_slice_many",
                                      cases=[{"request": cedar.request_json(q), "entities": cedar.entities_json(es)}
                                             for q, es in ps["pairs"]]) for ps in sets])
    stats["cpu"] = {"gen_pairs": _gen, "rust_slice_many": round(_cpu() - _c0, 1)}
    ok_sets = []
    adeq_cmds, adeq_owner = [], []
    for ps, mr in zip(sets, mres):
        if "manifest" not in mr:
            cls = mr.get("error") or ("panic" if "panic" in mr else ("parse_error" if "parse_error" in mr else
                                                                      ("schema_error" if "schema_error" in mr else "harness_error")))
            if cls == "UnsupportedCedarFeature":
                cls += ":" + mr.get("feature", "")[-40:]
            stats["refused"][cls] = stats["refused"].get(cls, 0) + 1
            if cls in ("panic", "parse_error", "schema_error", "harness_error"):
                rep.violation({"property": PROP, "kind": "manifest computation: " + cls, "case": describe(ps), "rust": mr},
                              no_failing_input=(cls != "panic"), key="c17-manifest-" + cls)
            continue
        ps["manifest"] = mr["manifest"]
        ps["typed"] = mr["typed"]
        ps["results"] = mr["results"]
        ok_sets.append(ps)
        stats["manifests"] += 1
        acc = {"nodes": 0, "is_ancestor": 0, "ancestor_tries": 0}
        depth = 0
        for rt, tr in mr["manifest"]["perAction"]:
            for _, t in tr["trie"]:
                depth = max(depth, trie_stats(t, acc))
        for k, v in acc.items():
            stats["trie"][k] = stats["trie"].get(k, 0) + v
        stats["trie_depth"][depth] = stats["trie_depth"].get(depth, 0) + 1
        # validator: per request type, the typed expressions of the policies that typecheck there
        by_rt = {}
        for pol in mr["typed"]:
            for e in pol["envs"]:
                if e["result"] == "success":
                    key = (repr(e["env"]["principal"]), repr(e["env"]["action"]), repr(e["env"]["resource"]))
                    sl = [[Sym(k.lstrip("?")), texpr._uid(u)] for k, u in pol["slots"]]
                    by_rt.setdefault(key, []).append([sl, texpr.texpr_sx(e["typed"])])
        for rt, tr in mr["manifest"]["perAction"]:
            key = (repr([list(map(ord, c)) for c in _name(rt["principal"])]),
                   repr({"type": [list(map(ord, c)) for c in _name(rt["action"]["ty"])], "id": list(map(ord, rt["action"]["eid"]))}),
                   repr([list(map(ord, c)) for c in _name(rt["resource"])]))
            typed = by_rt.get(key, [])
            if typed:
                adeq_cmds.append([Sym("manifest_adequate"), rtrie_sx(tr), typed])
                adeq_owner.append((ps, rt))
    fres = fw.run_model(driver, [[Sym("manifest_frag")] + c[1:] for c in adeq_cmds])
    for f in fres:
        for k in (f if isinstance(f, list) else []):
            stats["fragment"][str(k)] = stats["fragment"].get(str(k), 0) + 1
    _c1 = _cpu()
    ares = fw.run_model(driver, adeq_cmds)
    stats["cpu"]["model_adequate"] = round(_cpu() - _c1, 1)
    for (ps, rt), a, cmd in zip(adeq_owner, ares, adeq_cmds):
        stats["validator_runs"] += 1
        if isinstance(a, list) and a and a[0] == "adequate":
            stats["validator_accept"] += 1
        else:
            ps.setdefault("validator_reject", []).append({"request_type": rt, "missing": repr(a)[:600]})
            stats["validator_reject"] += 1
    # slices
    cases, rres = [], []
    for ps in ok_sets:
        for (q, es), rr in zip(ps["pairs"], ps["results"]):
            cases.append((ps, q, es))
            rres.append(dict(rr, manifest=ps["manifest"]))
    mcmds = [[Sym("manifest_slice"), manifest_sx(ps["manifest"]), cedar.request_sx(q), cedar.entities_sx(es)]
             for ps, q, es in cases]
    _c1 = _cpu()
    mout = fw.run_model(driver, mcmds)
    stats["cpu"]["model_slice"] = round(_cpu() - _c1, 1)
    failing_sets = set()
    oracle_failures = {}
    for (ps, q, es), rr, mo in zip(cases, rres, mout):
        stats["pairs"] += 1
        if "slice" not in rr:
            kind = "panic" if "panic" in rr else rr.get("slice_error") or "harness_error"
            stats["slice_fail"][kind] = stats["slice_fail"].get(kind, 0) + 1
            # a conformant store must slice: a panic / slice error is a failure of the property's premise "the slice exists"
            rep.violation({"property": PROP, "kind": "slicing a conformant store fails: " + kind, "case": describe(ps, q, es),
                           "rust": {k: v for k, v in rr.items() if k != "manifest"}},
                          no_failing_input=(kind == "harness_error"), key="c17-slice-" + kind)
            continue
        full, sl = rr["full"], rr["sliced"]
        stats["decisions"][full["decision"]] = stats["decisions"].get(full["decision"], 0) + 1
        if full["reasons"]:
            stats["with_reasons"] += 1
        if full["errors"]:
            stats["with_errors"] += 1
            for _, c in full["errors"]:
                stats["error_classes"][c] = stats["error_classes"].get(c, 0) + 1
        n_full = len(rr["store"])
        n_sl = len(rr["slice"])
        a_full = sum(len(e["attrs"]) for e in rr["store"])
        a_sl = sum(len(e["attrs"]) for e in rr["slice"])
        an_sl = sum(len(e["ancestors"]) for e in rr["slice"])
        stats["entities_full"] += n_full
        stats["entities_slice"] += n_sl
        stats["attrs_full"] += a_full
        stats["attrs_slice"] += a_sl
        stats["ancestors_slice"] += an_sl
        if n_sl < n_full or a_sl < a_full:
            stats["slice_matters"] += 1
        stats["distinct"].add(fw.case_hash([ps["policies"], ps["templates"], rr["store"], cedar.request_json(q)]))
        oracle_ok = (full == sl)
        if not oracle_ok:
            stats["oracle_fail"] += 1
            failing_sets.add(id(ps))
            cls = classify(harness, ps, q, es, full, sl)
            stats["oracle_fail_classes"][cls] = stats["oracle_fail_classes"].get(cls, 0) + 1
            size = (len(ps["policies"]), len(es))
            if cls not in oracle_failures or size < oracle_failures[cls][0]:
                oracle_failures[cls] = (size, ps, q, es, full, sl)
        rs_, ms_ = canon_slice_rust(rr["slice"]), canon_slice_model(mo)
        if rs_ != ms_:
            stats["corr_diff"] += 1
            diff = None
            if isinstance(ms_, dict):
                for u in sorted(set(rs_) | set(ms_)):
                    if rs_.get(u) != ms_.get(u):
                        diff = {"uid": repr(u), "rust": repr(rs_.get(u))[:500], "model": repr(ms_.get(u))[:500]}
                        break
            rep.violation({"property": PROP, "kind": "model slice differs from EntityManifest::slice_entities",
                           "model_function": "Manifest.slice_by_manifest", "rust_entry_point": "EntityManifest::slice_entities",
                           "first_difference": diff or ms_, "case": describe(ps, q, es), "manifest": rr["manifest"],
                           "theorems_losing_transfer": THEOREMS}, no_failing_input=oracle_ok)
        else:
            stats["corr_same"] += 1
    # one minimised replay per class of oracle failure (stable key per class)
    for cls in sorted(oracle_failures):
        _, ps, q, es, full, sl = oracle_failures[cls]
        ps2, es2, full2, sl2, rr2 = shrink(harness, ps, q, es, full, sl)
        rep.violation({"property": PROP, "kind": "authorization on the sliced store differs from the full store",
                       "class": cls, "occurrences_in_this_run": stats["oracle_fail_classes"][cls],
                       "case": describe(ps2, q, es2), "full": full2, "sliced": sl2, "slice": rr2.get("slice"),
                       "manifest": rr2.get("manifest"), "validator": ps.get("validator_reject"),
                       "replay": "./check C17 --replay <this file>"}, key="c17-oracle-" + cls)
    # validator rejections: a correspondence break only when confirmed by an oracle failure
    for ps in ok_sets:
        if ps.get("validator_reject"):
            confirmed = id(ps) in failing_sets
            stats["validator_reject_confirmed" if confirmed else "validator_reject_unconfirmed"] += 1
            if not confirmed:
                slot_in = any(SLOT_IN.search(t["text"]) for t in ps["templates"])
                rep.violation({"property": PROP, "kind": "the model's manifest validator rejects a manifest computed by the implementation and no store was found where the missing path matters",
                               "model_function": "Manifest.adequate", "rust_entry_point": "compute_entity_manifest",
                               "missing": ps["validator_reject"], "case": describe(ps), "manifest": ps["manifest"],
                               "theorems_losing_transfer": ["c17_adequate_sound_partial"]}, no_failing_input=True,
                              key="c17-oracle-template-slot-in" if slot_in else None)
    return cases, mcmds, mout


def _cpu():
    import os
    t = os.times()
    return t.user + t.system + t.children_user + t.children_system


def run(rep, tier, seed):
    phases = {}
    c0 = _cpu()
    ob, dis, details, failures = fw.check_props(PROP_FILE, THEOREMS)
    phases["proofs"] = round(_cpu() - c0, 1)
    c0 = _cpu()
    harness = fw.build_harness()
    driver = fw.build_model_driver()
    phases["builds"] = round(_cpu() - c0, 1)
    c0 = _cpu()
    r = random.Random(seed)
    quick = tier == "quick"
    npairs = 10 if quick else 40
    stats = {"manifests": 0, "refused": {}, "trie": {}, "trie_depth": {}, "validator_runs": 0, "validator_accept": 0,
             "validator_reject": 0, "validator_reject_confirmed": 0, "validator_reject_unconfirmed": 0, "pairs": 0,
             "slice_fail": {}, "decisions": {}, "with_reasons": 0, "with_errors": 0, "error_classes": {},
             "entities_full": 0, "entities_slice": 0, "attrs_full": 0, "attrs_slice": 0, "ancestors_slice": 0,
             "fragment": {}, "slice_matters": 0, "oracle_fail": 0, "oracle_fail_classes": {}, "corr_diff": 0, "corr_same": 0, "distinct": set()}
    sets = h_policy_sets(r, len(H_POOL) + (8 if quick else 900))
    # refused stream (hand-written)
    for scope, body, _ in H_REFUSED:
        sets.append({"schema": H_SCHEMA, "templates": [], "policies": [{"id": "p0", "text": "permit(%s) when { %s };" % (scope, body)}],
                     "stream": "H"})
    sets += t_policy_sets(r, 6 if quick else 150, 5 if quick else 12)
    phases["generate"] = round(_cpu() - c0, 1)
    c0 = _cpu()
    cases, mcmds, mout = run_sets(rep, sets, npairs, r, harness, driver, stats)
    phases["run_sets"] = round(_cpu() - c0, 1)
    c0 = _cpu()
    nx = fw.coq_crosscheck(mcmds[:16], mout[:16], PROP)
    phases["vm_compute_crosscheck"] = round(_cpu() - c0, 1)
    for f in failures:
        rep.violation({"property": PROP, "kind": "proof obligation no longer checks", "detail": f}, no_failing_input=True)
    distinct = stats.pop("distinct")
    sample = None
    if cases:
        ps, q, es = cases[0]
        sample = describe(ps, q, es)
    rep.coverage = {
        "obligations": ob, "discharged": dis,
        "checker_cmd": "make -C coq props/%s.vo (coqc 8.16.1) + Print Assumptions" % PROP_FILE,
        "trusted_base": fw.TRUSTED_BASE, "theorems": details,
        "evaluations": stats["pairs"], "distinct_nontrivial": len(distinct),
        "rule": "one evaluation = one (policy set, request, store) triple: manifest computed by compute_entity_manifest, store sliced by slice_entities, authorization on both stores compared (oracle) and the slice compared entity-by-entity with the extracted Coq slice (correspondence); distinct by hash of (policies, store, request); slice_matters counts the triples where the slice dropped an entity or an attribute",
        "traces_validated_against_impl": stats["corr_same"] + stats["corr_diff"],
        "vm_compute_crosscheck_cases": nx,
        "policy_sets": len(sets), "pairs_per_policy_set": npairs, "cpu_seconds_by_phase": phases,
        "stats": stats, "samples": [sample],
    }
    rep.assumptions = [
        "stores and requests are conformant to the schema (generated by vp/tgen.py gen_env / the hand-written generator); policies with tags are refused by the analysis (UnsupportedCedarFeature) and only recorded",
        "the model's slice keeps an entity uid met by a trie node without consulting node_type (the code prunes children of entity-typed nodes; equal on conformant data)",
        "the validator `adequate` covers direct attribute chains and `in` over direct chains only (a necessary condition for adequacy, not the full analysis)",
    ]


def replay(rep, path):
    import json
    payload = json.load(open(path))
    c = payload["case"]
    harness = fw.build_harness()
    cmd = {"cmd": "manifest_slice", "schema_json": c["schema_json"], "templates": c["templates"], "policies": c["policies"],
           "request": c["request"], "entities": c["entities"]}
    rr = fw.run_rust(harness, [cmd])[0]
    print(json.dumps({k: rr.get(k) for k in ("full", "sliced", "slice", "slice_error", "panic")}, indent=1)[:6000])
    if rr.get("full") != rr.get("sliced"):
        rep.violation(dict(payload, replayed=True))
