"""C01 — authorization: default deny, forbid overrides, skip on error, pure function.
   Proof: props/C01_Authz.v.  Correspondence: model is_authorized vs Authorizer::is_authorized
   (core and API level) on exhaustive (effect x outcome)^n sets and random policy sets.
   Oracle on the implementation: response recomputed from per-policy single-policy runs;
   permutation / id renaming / entity insertion order / earlier calls leave it unchanged."""
import itertools
import random

import cedar
import framework as fw
import gen
from cedar import U
from sx import Sym

PROP = "C01"
PROP_FILE = "C01_Authz"
THEOREMS = ["c01_decision_allow", "c01_decision_deny", "c01_errors", "c01_error_not_satisfied",
            "c01_reasons", "c01_order_independent", "c01_id_spelling"]

MANIFEST = {
    "text": "Authorizer decision/reasons/errors characterised for every policy list and every per-policy evaluation function; order and id-spelling independence (7 theorems, props/C01_Authz.v). Tied to /repo by correspondence (model is_authorized vs Authorizer::is_authorized at core and API level) on the exhaustive (effect x outcome)^n space and random sets, plus an implementation-level oracle recomputing the response from the per-policy outcomes.",
    "technique": "proof (Coq, induction over the policy list) + correspondence by differential execution",
}

T = ("lit", ("bool", True))
F = ("lit", ("bool", False))


def realise(rng, w, eff, outcome, pid):
    """a policy with the requested effect whose evaluation on w.request has the requested outcome"""
    q = w.request
    other = [u for u in w.uids if u != q["principal"]][0]
    p = {"id": pid, "effect": eff, "principal": ("any",), "action": ("any",), "resource": ("any",),
         "conds": [], "annotations": []}
    sat_exprs = [T, ("binop", "eq", ("var", "principal"), ("var", "principal")),
                 ("binop", "less", ("lit", ("long", 1)), ("lit", ("long", 2))),
                 ("or", T, ("binop", "add", ("lit", ("long", 1)), ("lit", ("string", "a")))),
                 ("unop", "not", ("hasattr", ("lit", ("entity", U(("User",), "ghost"))), "n"))]
    unsat_exprs = [F, ("binop", "less", ("lit", ("long", 2)), ("lit", ("long", 1))),
                   ("and", F, ("getattr", ("var", "context"), "missing")),
                   ("binop", "eq", ("lit", ("long", 1)), ("lit", ("string", "1")))]
    err_exprs = [("getattr", ("var", "context"), "missing"),
                 ("binop", "less", ("binop", "add", ("lit", ("long", 1)), ("lit", ("string", "a"))), ("lit", ("long", 2))),
                 ("binop", "eq", ("binop", "add", ("lit", ("long", cedar.I64_MAX)), ("lit", ("long", 1))), ("lit", ("long", 0))),
                 ("ext", "lessThan", [("ext", "decimal", [("lit", ("string", "x"))]), ("ext", "decimal", [("lit", ("string", "1.0"))])]),
                 ("getattr", ("lit", ("entity", U(("User",), "ghost"))), "b"),
                 ("lit", ("long", 3)),                      # non-boolean condition: type error
                 ("and", T, ("lit", ("string", "x")))]
    c = rng.random()
    if outcome == "sat":
        if c < 0.3:
            p["principal"] = ("eq", q["principal"])
        elif c < 0.4:
            p["action"] = ("in", [q["action"], w.actions[0]])
        elif c < 0.5:
            p["resource"] = ("is", q["resource"][1])
        elif c < 0.65:
            p["conds"] = [("unless", rng.choice(unsat_exprs))]
        else:
            p["conds"] = [("when", rng.choice(sat_exprs))]
            if rng.random() < 0.3:
                p["conds"].append(("unless", rng.choice(unsat_exprs)))
    elif outcome == "unsat":
        if c < 0.3:
            p["principal"] = ("eq", other)
            if rng.random() < 0.5:   # scope false short-circuits an erroring body
                p["conds"] = [("when", rng.choice(err_exprs))]
        elif c < 0.4:
            p["resource"] = ("is", ("Nope",))
        elif c < 0.6:
            p["conds"] = [("unless", rng.choice(sat_exprs))]
        else:
            p["conds"] = [("when", rng.choice(unsat_exprs))]
            if rng.random() < 0.3:
                p["conds"].append(("when", rng.choice(err_exprs)))   # skipped by &&
    else:
        k = rng.choice(["when", "unless"])
        p["conds"] = [(k, rng.choice(err_exprs))]
        if rng.random() < 0.3:
            p["conds"].insert(0, ("when", rng.choice(sat_exprs)))
    return p


def as_link(rng, w, p):
    """turn a static policy into (template, link) with the same meaning where the scope allows it"""
    t = dict(p)
    slots = []
    q = w.request
    for var in ("principal", "resource"):
        c = p[var]
        if c[0] in ("eq", "in") and c[1] != "slot":
            t[var] = (c[0], "slot")
            slots.append((var, c[1]))
        elif c[0] == "any" and rng.random() < 0.5:
            # `var in ?slot` with slot := the request's own entity is satisfied (in is reflexive)
            t[var] = ("in", "slot")
            slots.append((var, q[var]))
    if not slots:
        return None
    t["id"] = "T_" + p["id"]
    return t, {"id": p["id"], "template": t["id"], "slots": slots}


ID_SPELLINGS = [lambda i: "p%d" % i, lambda i: 'id "%d"\\ é\U0001F600' % i, lambda i: "policy%d" % (9 - i)]


def build_case(rng, w, spec, spelling=0, use_links=True):
    pols, templates = [], {}
    for i, (eff, out) in enumerate(spec):
        p = realise(rng, w, eff, out, ID_SPELLINGS[spelling](i))
        if use_links and rng.random() < 0.25:
            r = as_link(rng, w, p)
            if r:
                templates[r[0]["id"]] = r[0]
                p = r[1]
        pols.append(p)
    return {"world": w, "policies": pols, "templates": templates, "spec": spec}


def rust_cmd(case, order=None, ent_order=None):
    w = case["world"]
    pols = case["policies"] if order is None else [case["policies"][i] for i in order]
    ents = w.entities if ent_order is None else [w.entities[i] for i in ent_order]
    return {"cmd": "authorize",
            "templates": [{"id": t["id"], "text": cedar.policy_text(t)} for t in case["templates"].values()],
            "policies": [({"id": p["id"], "template": p["template"],
                           "slots": {"?" + k: cedar.uid_json(u) for k, u in p["slots"]}} if "template" in p
                          else {"id": p["id"], "text": cedar.policy_text(p)}) for p in pols],
            "request": cedar.request_json(w.request), "entities": cedar.entities_json(ents)}


def model_cmd(case):
    w = case["world"]
    return [Sym("authorize"), [cedar.policy_sx(p, case["templates"]) for p in case["policies"]],
            cedar.request_sx(w.request), cedar.entities_sx(w.entities)]


def canon_rust(r):
    if "decision" not in r:
        return ("bad", repr(r))
    return (r["decision"].lower(), tuple(sorted(r["reasons"])),
            tuple(sorted((i, cedar.RUST_ERR_CLASS.get(c, c)) for i, c in r["errors"])))


def canon_model(s):
    if not (isinstance(s, list) and s and s[0] == "response"):
        return ("bad", repr(s))
    return (str(s[1]), tuple(sorted(x.text() for x in s[2])), tuple(sorted((ie[0].text(), str(ie[1])) for ie in s[3])))


def spec_response(spec, ids):
    """the property, stated on the per-policy outcomes"""
    sp = [i for i, (e, o) in zip(ids, spec) if e == "permit" and o == "sat"]
    sf = [i for i, (e, o) in zip(ids, spec) if e == "forbid" and o == "sat"]
    dec = "allow" if sp and not sf else "deny"
    return dec, tuple(sorted(sf if sf else sp)), tuple(sorted(i for i, (e, o) in zip(ids, spec) if o == "err"))


def describe(case):
    return {"spec": case["spec"], "request": cedar.request_json(case["world"].request),
            "entities": cedar.entities_json(case["world"].entities), "rust_cmd": rust_cmd(case)}


def run(rep, tier, seed):
    ob, dis, details, failures = fw.check_props(PROP_FILE, THEOREMS)
    harness = fw.build_harness()
    driver = fw.build_model_driver()
    rng = random.Random(seed)
    cases = []
    nmax = 3 if tier == "quick" else 4
    cells = [(e, o) for e in ("permit", "forbid") for o in ("sat", "unsat", "err")]
    for n in range(0, nmax + 1):
        for spec in itertools.product(cells, repeat=n):
            w = gen.World(rng)
            cases.append(build_case(rng, w, list(spec), spelling=rng.randrange(3)))
    nrand = 400 if tier == "quick" else 20000
    for _ in range(nrand):
        w = gen.World(rng)
        n = rng.randint(1, 6)
        cases.append(build_case(rng, w, [rng.choice(cells) for _ in range(n)], spelling=rng.randrange(3)))
    # random-condition stream: outcome unknown in advance (model is the reference)
    nfree = 300 if tier == "quick" else 10000
    free = []
    for _ in range(nfree):
        w = gen.World(rng)
        g = gen.ExprGen(w, rng)
        pols = []
        for i in range(rng.randint(1, 5)):
            pols.append({"id": "p%d" % i, "effect": rng.choice(["permit", "forbid"]),
                         "principal": rng.choice([("any",), ("eq", w.request["principal"]), ("in", w.any_uid()),
                                                  ("is", w.request["principal"][1]), ("isin", ("User",), w.any_uid())]),
                         "action": rng.choice([("any",), ("eq", w.request["action"]), ("in", [w.actions[0], w.actions[1]])]),
                         "resource": rng.choice([("any",), ("eq", w.any_uid()), ("in", w.any_uid())]),
                         "conds": [(rng.choice(["when", "unless"]), g.gen("bool", 3)) for _ in range(rng.choice([0, 1, 1, 2]))],
                         "annotations": []})
        free.append({"world": w, "policies": pols, "templates": {}, "spec": None})

    allc = cases + free
    # variants sent to the implementation: as generated, permuted policies, permuted entities
    rcmds, meta = [], []
    for ci, c in enumerate(allc):
        rcmds.append(rust_cmd(c)); meta.append((ci, "base"))
        n = len(c["policies"])
        if n > 1:
            order = list(range(n)); rng.shuffle(order)
            rcmds.append(rust_cmd(c, order=order)); meta.append((ci, "perm"))
        ne = len(c["world"].entities)
        if ne > 1:
            eo = list(range(ne)); rng.shuffle(eo)
            rcmds.append(rust_cmd(c, ent_order=eo)); meta.append((ci, "entperm"))
    rres = fw.run_rust(harness, rcmds)
    mres = fw.run_model(driver, [model_cmd(c) for c in allc])

    stats = {"allow": 0, "deny": 0, "with_errors": 0, "variants": {}, "links": 0}
    distinct = set()
    for (ci, variant), rr in zip(meta, rres):
        c = allc[ci]
        stats["variants"][variant] = stats["variants"].get(variant, 0) + 1
        r = canon_rust(rr)
        m = canon_model(mres[ci])
        ids = [p["id"] for p in c["policies"]]
        bad = None
        if "decision" in rr:
            api = (rr["api_decision"].lower(), tuple(sorted(rr["api_reasons"])), tuple(sorted(rr["api_errors"])))
            if api != (r[0], r[1], tuple(i for i, _ in r[2])):
                bad = "API-level response differs from core response"
        if c["spec"] is not None and r[0] != "bad":
            want = spec_response(c["spec"], ids)
            if (r[0], r[1], tuple(i for i, _ in r[2])) != want:
                bad = "response violates the authorization semantics (oracle on per-policy outcomes): want %r" % (want,)
        if bad is None and r != m:
            bad = "implementation response differs from the proven model"
        if bad:
            rep.violation({"property": PROP, "kind": bad, "variant": variant, "case": describe(c),
                           "rust": rr, "model": repr(m)})
        if variant == "base" and r[0] != "bad":
            stats[r[0]] += 1
            stats["with_errors"] += 1 if r[2] else 0
            stats["links"] += sum(1 for p in c["policies"] if "template" in p)
            classes = set(c["spec"]) if c["spec"] else set()
            if len(classes) >= 2 or c["spec"] is None:
                distinct.add(fw.case_hash(describe(c)))
    nx = fw.coq_crosscheck([model_cmd(c) for c in allc[:40]], mres[:40], PROP)
    for f in failures:
        rep.violation({"property": PROP, "kind": "proof obligation no longer checks", "detail": f}, no_failing_input=True)
    rep.coverage = {
        "obligations": ob, "discharged": dis,
        "checker_cmd": "make -C coq props/%s.vo (coqc 8.16.1) + Print Assumptions" % PROP_FILE,
        "trusted_base": fw.TRUSTED_BASE, "theorems": details,
        "evaluations": len(rcmds), "distinct_nontrivial": len(distinct),
        "rule": "exhaustive (effect x {sat,unsat,err})^n for n<=%d with randomly realised conditions (scope/when/unless/template-linked), %d random specs with n<=6, %d sets with random conditions; each also with permuted policies and permuted entity insertion order, 3 id spellings, all on one long-lived Authorizer; non-trivial = mixes >=2 distinct (effect,outcome) classes or has random conditions" % (nmax, nrand, nfree),
        "exhaustive": True, "traces_validated_against_impl": len(rcmds), "vm_compute_crosscheck_cases": nx,
        "decision_histogram": {k: stats[k] for k in ("allow", "deny", "with_errors", "links")},
        "variants": stats["variants"],
        "samples": [describe(c) for c in (cases[50:51] + free[:1])],
    }
    rep.assumptions = ["policy ids unique within a set (PolicySet enforces it)", "error messages not compared, only ids and classes"]


def replay(rep, path):
    fw.replay_generic(rep, path)
