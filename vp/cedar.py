"""Python-side representation of Cedar objects and their renderings:
   -> S-expression for the Coq model, -> Cedar text / EST JSON / Cedar JSON for the Rust harness.

   uid    : ('uid', (ns..., T), id)
   prim   : ('bool', b) | ('long', z) | ('string', s) | ('entity', uid)
   expr   : ('lit', prim) | ('var', v) | ('slot', s) | ('unknown', name, ty|None) | ('if', c, t, e)
          | ('and', a, b) | ('or', a, b) | ('unop', op, a) | ('binop', op, a, b) | ('ext', fn, [args])
          | ('getattr', e, a) | ('hasattr', e, a) | ('like', e, [c|'*'...]) | ('is', e, ty)
          | ('set', [e]) | ('record', [(k, e)])
   value  : ('prim', prim) | ('set', [v]) | ('record', [(k, v)]) | ('ext', ('decimal', z))
          | ('ext', ('ip', v6, addr, prefix)) | ('ext', ('datetime', ms)) | ('ext', ('duration', ms))
"""
import ipaddress
from sx import Sym, Str

I64_MIN = -(2 ** 63)
I64_MAX = 2 ** 63 - 1

RESERVED = {"true", "false", "if", "then", "else", "in", "is", "like", "has", "__cedar"}
METHOD_EXT = {"lessThan", "lessThanOrEqual", "greaterThan", "greaterThanOrEqual", "isIpv4", "isIpv6",
              "isLoopback", "isMulticast", "isInRange", "offset", "durationSince", "toDate", "toTime",
              "toMilliseconds", "toSeconds", "toMinutes", "toHours", "toDays"}
FUNC_EXT = {"decimal", "ip", "datetime", "duration"}
BINOP_TEXT = {"eq": "==", "less": "<", "lesseq": "<=", "add": "+", "sub": "-", "mul": "*", "in": "in"}
BINOP_METHOD = {"contains", "containsAll", "containsAny", "getTag", "hasTag"}
BINOP_EST = {"eq": "==", "less": "<", "lesseq": "<=", "add": "+", "sub": "-", "mul": "*", "in": "in",
             "contains": "contains", "containsAll": "containsAll", "containsAny": "containsAny",
             "getTag": "getTag", "hasTag": "hasTag"}


def U(ty, eid):
    if isinstance(ty, str):
        ty = tuple(ty.split("::"))
    return ("uid", tuple(ty), eid)


# ------------------------------------------------------------------ sexp renderings
def name_sx(n):
    return [Str(c) for c in n]


def uid_sx(u):
    return [Sym("uid"), name_sx(u[1]), Str(u[2])]


def prim_sx(p):
    k, v = p
    if k == "bool":
        return [Sym("bool"), Sym("true" if v else "false")]
    if k == "long":
        return [Sym("long"), int(v)]
    if k == "string":
        return [Sym("string"), Str(v)]
    if k == "entity":
        return [Sym("entity"), uid_sx(v)]
    raise ValueError(p)


def rtype_sx(t):
    if t is None:
        return Sym("none")
    if isinstance(t, str):
        return [Sym("some"), Sym(t)]
    return [Sym("some"), [Sym(t[0]), name_sx(t[1])]]


def expr_sx(e):
    k = e[0]
    if k == "lit":
        return [Sym("lit"), prim_sx(e[1])]
    if k == "var":
        return [Sym("var"), Sym(e[1])]
    if k == "slot":
        return [Sym("slot"), Sym(e[1])]
    if k == "unknown":
        return [Sym("unknown"), Str(e[1]), rtype_sx(e[2])]
    if k == "if":
        return [Sym("if"), expr_sx(e[1]), expr_sx(e[2]), expr_sx(e[3])]
    if k in ("and", "or"):
        return [Sym(k), expr_sx(e[1]), expr_sx(e[2])]
    if k == "unop":
        return [Sym("unop"), Sym(e[1]), expr_sx(e[2])]
    if k == "binop":
        return [Sym("binop"), Sym(e[1]), expr_sx(e[2]), expr_sx(e[3])]
    if k == "ext":
        return [Sym("ext"), [Str(e[1])], [expr_sx(a) for a in e[2]]]
    if k in ("getattr", "hasattr"):
        return [Sym(k), expr_sx(e[1]), Str(e[2])]
    if k == "like":
        return [Sym("like"), expr_sx(e[1]), [Sym("star") if c == ("*",) else ord(c) for c in e[2]]]
    if k == "is":
        return [Sym("is"), expr_sx(e[1]), name_sx(e[2])]
    if k == "set":
        return [Sym("set"), [expr_sx(a) for a in e[1]]]
    if k == "record":
        return [Sym("record"), [[Str(kk), expr_sx(v)] for kk, v in e[1]]]
    raise ValueError(e)


def value_sx(v):
    k = v[0]
    if k == "prim":
        return [Sym("prim"), prim_sx(v[1])]
    if k == "set":
        return [Sym("set"), [value_sx(x) for x in v[1]]]
    if k == "record":
        return [Sym("record"), [[Str(kk), value_sx(x)] for kk, x in v[1]]]
    if k == "ext":
        x = v[1]
        if x[0] == "ip":
            return [Sym("ext"), [Sym("ip"), Sym("true" if x[1] else "false"), x[2], x[3]]]
        return [Sym("ext"), [Sym(x[0]), x[1]]]
    raise ValueError(v)


def attrs_sx(kvs):
    return [[Str(k), value_sx(v)] for k, v in kvs]


def ancestors_of(entities, u):
    """closure of the parent links through entities present in the store"""
    parents = {e["uid"]: e["parents"] for e in entities}
    seen = []
    stack = list(parents.get(u, []))
    while stack:
        p = stack.pop()
        if p in seen:
            continue
        seen.append(p)
        stack.extend(parents.get(p, []))
    return seen


def entities_sx(entities):
    """entities: list of dicts {uid, attrs:[(k,v)], tags:[(k,v)], parents:[uid]}"""
    return [[Sym("entity"), uid_sx(e["uid"]), attrs_sx(e["attrs"]), attrs_sx(e.get("tags", [])),
             [uid_sx(a) for a in ancestors_of(entities, e["uid"])]] for e in entities]


def request_sx(q):
    return [Sym("request"), uid_sx(q["principal"]), uid_sx(q["action"]), uid_sx(q["resource"]),
            attrs_sx(q["context"])]


def slots_sx(slots):
    return [[Sym(k), uid_sx(u)] for k, u in slots]


# ------------------------------------------------------------------ Cedar text
def str_lit(s):
    out = ['"']
    for c in s:
        o = ord(c)
        if c in '"\\':
            out.append("\\" + c)
        elif 0x20 <= o < 0x7F:
            out.append(c)
        else:
            out.append("\\u{%x}" % o)
    out.append('"')
    return "".join(out)


def pattern_text(p):
    """p: list of single-char strings or the wildcard marker ('*',) ; literal star is the str '*'"""
    out = ['"']
    for c in p:
        if c == ("*",):
            out.append("*")
        elif c == "*":
            out.append("\\*")
        elif c in ('"', "\\"):
            out.append("\\" + c)
        elif 0x20 <= ord(c) < 0x7F:
            out.append(c)
        else:
            out.append("\\u{%x}" % ord(c))
    out.append('"')
    return "".join(out)


def is_ident(s):
    return (len(s) > 0 and (s[0].isascii() and (s[0].isalpha() or s[0] == "_"))
            and all(c.isascii() and (c.isalnum() or c == "_") for c in s) and s not in RESERVED)


def type_text(t):
    return "::".join(t)


def uid_text(u):
    return type_text(u[1]) + "::" + str_lit(u[2])


def prim_text(p):
    k, v = p
    if k == "bool":
        return "true" if v else "false"
    if k == "long":
        return str(v) if v >= 0 else "(%d)" % v
    if k == "string":
        return str_lit(v)
    if k == "entity":
        return uid_text(v)
    raise ValueError(p)


class NotExpressible(Exception):
    pass


def expr_text(e):
    """fully parenthesised Cedar text; raises NotExpressible when no text form exists"""
    k = e[0]
    if k == "lit":
        return prim_text(e[1])
    if k == "var":
        return e[1]
    if k == "slot":
        return "?" + e[1]
    if k == "unknown":
        if e[2] is not None:
            raise NotExpressible("typed unknown")
        return "unknown(%s)" % str_lit(e[1])
    if k == "if":
        return "(if %s then %s else %s)" % (expr_text(e[1]), expr_text(e[2]), expr_text(e[3]))
    if k == "and":
        return "(%s && %s)" % (expr_text(e[1]), expr_text(e[2]))
    if k == "or":
        return "(%s || %s)" % (expr_text(e[1]), expr_text(e[2]))
    if k == "unop":
        a = expr_text(e[2])
        if e[1] == "not":
            return "(!(%s))" % a
        if e[1] == "neg":
            return "(-(%s))" % a
        return "((%s).isEmpty())" % a
    if k == "binop":
        a, b = expr_text(e[2]), expr_text(e[3])
        if e[1] in BINOP_TEXT:
            return "((%s) %s (%s))" % (a, BINOP_TEXT[e[1]], b)
        return "((%s).%s(%s))" % (a, e[1], b)
    if k == "ext":
        fn, args = e[1], [expr_text(a) for a in e[2]]
        if fn in METHOD_EXT:
            if not args:
                raise NotExpressible("method call without receiver")
            return "((%s).%s(%s))" % (args[0], fn, ", ".join(args[1:]))
        if fn in FUNC_EXT:
            return "%s(%s)" % (fn, ", ".join(args))
        raise NotExpressible("unknown function in text")
    if k == "getattr":
        if is_ident(e[2]):
            return "((%s).%s)" % (expr_text(e[1]), e[2])
        return "((%s)[%s])" % (expr_text(e[1]), str_lit(e[2]))
    if k == "hasattr":
        if is_ident(e[2]):
            return "((%s) has %s)" % (expr_text(e[1]), e[2])
        return "((%s) has %s)" % (expr_text(e[1]), str_lit(e[2]))
    if k == "like":
        return "((%s) like %s)" % (expr_text(e[1]), pattern_text(e[2]))
    if k == "is":
        return "((%s) is %s)" % (expr_text(e[1]), type_text(e[2]))
    if k == "set":
        return "[" + ", ".join(expr_text(a) for a in e[1]) + "]"
    if k == "record":
        return "{" + ", ".join("%s: %s" % (str_lit(kk), expr_text(v)) for kk, v in e[1]) + "}"
    raise ValueError(e)


# ------------------------------------------------------------------ EST JSON
def uid_json(u):
    return {"type": type_text(u[1]), "id": u[2]}


def expr_est(e):
    k = e[0]
    if k == "lit":
        pk, pv = e[1]
        if pk == "entity":
            return {"Value": {"__entity": uid_json(pv)}}
        return {"Value": pv}
    if k == "var":
        return {"Var": e[1]}
    if k == "slot":
        return {"Slot": "?" + e[1]}
    if k == "unknown":
        return {"unknown": [{"Value": e[1]}]}
    if k == "if":
        return {"if-then-else": {"if": expr_est(e[1]), "then": expr_est(e[2]), "else": expr_est(e[3])}}
    if k == "and":
        return {"&&": {"left": expr_est(e[1]), "right": expr_est(e[2])}}
    if k == "or":
        return {"||": {"left": expr_est(e[1]), "right": expr_est(e[2])}}
    if k == "unop":
        op = {"not": "!", "neg": "neg", "isEmpty": "isEmpty"}[e[1]]
        return {op: {"arg": expr_est(e[2])}}
    if k == "binop":
        return {BINOP_EST[e[1]]: {"left": expr_est(e[2]), "right": expr_est(e[3])}}
    if k == "ext":
        return {e[1]: [expr_est(a) for a in e[2]]}
    if k == "getattr":
        return {".": {"left": expr_est(e[1]), "attr": e[2]}}
    if k == "hasattr":
        return {"has": {"left": expr_est(e[1]), "attr": e[2]}}
    if k == "like":
        return {"like": {"left": expr_est(e[1]),
                         "pattern": ["Wildcard" if c == ("*",) else {"Literal": c} for c in e[2]]}}
    if k == "is":
        return {"is": {"left": expr_est(e[1]), "entity_type": type_text(e[2])}}
    if k == "set":
        return {"Set": [expr_est(a) for a in e[1]]}
    if k == "record":
        return {"Record": {kk: expr_est(v) for kk, v in e[1]}}
    raise ValueError(e)


# ------------------------------------------------------------------ Cedar JSON values
def decimal_str(z):
    neg = z < 0
    a = abs(z)
    return ("-" if neg else "") + "%d.%04d" % (a // 10000, a % 10000)


def ip_str(v6, addr, prefix):
    a = ipaddress.IPv6Address(addr) if v6 else ipaddress.IPv4Address(addr)
    return "%s/%d" % (a, prefix)


def civil_from_days(z):
    z += 719468
    era = (z if z >= 0 else z - 146096) // 146097
    doe = z - era * 146097
    yoe = (doe - doe // 1460 + doe // 36524 - doe // 146096) // 365
    y = yoe + era * 400
    doy = doe - (365 * yoe + yoe // 4 - yoe // 100)
    mp = (5 * doy + 2) // 153
    d = doy - (153 * mp + 2) // 5 + 1
    m = mp + 3 if mp < 10 else mp - 9
    return (y + (1 if m <= 2 else 0), m, d)


def datetime_str(ms):
    """ISO form accepted by the datetime constructor, or None if the year is outside 0000..9999"""
    days, rem = divmod(ms, 86400000)
    y, m, d = civil_from_days(days)
    if not (0 <= y <= 9999):
        return None
    h, rem = divmod(rem, 3600000)
    mi, rem = divmod(rem, 60000)
    s, milli = divmod(rem, 1000)
    return "%04d-%02d-%02dT%02d:%02d:%02d.%03dZ" % (y, m, d, h, mi, s, milli)


def ext_call_of(x):
    """(fn, arg-string) constructing the extension value x"""
    if x[0] == "decimal":
        return ("decimal", decimal_str(x[1]))
    if x[0] == "ip":
        return ("ip", ip_str(x[1], x[2], x[3]))
    if x[0] == "duration":
        return ("duration", "%dms" % x[1])
    if x[0] == "datetime":
        s = datetime_str(x[1])
        if s is None:
            raise NotExpressible("datetime out of constructor range")
        return ("datetime", s)
    raise ValueError(x)


def value_json(v):
    k = v[0]
    if k == "prim":
        pk, pv = v[1]
        if pk == "entity":
            return {"__entity": uid_json(pv)}
        return pv
    if k == "set":
        return [value_json(x) for x in v[1]]
    if k == "record":
        return {kk: value_json(x) for kk, x in v[1]}
    if k == "ext":
        fn, arg = ext_call_of(v[1])
        return {"__extn": {"fn": fn, "arg": arg}}
    raise ValueError(v)


def value_expr(v):
    """the expression denoting value v"""
    k = v[0]
    if k == "prim":
        return ("lit", v[1])
    if k == "set":
        return ("set", [value_expr(x) for x in v[1]])
    if k == "record":
        return ("record", [(kk, value_expr(x)) for kk, x in v[1]])
    fn, arg = ext_call_of(v[1])
    return ("ext", fn, [("lit", ("string", arg))])


def entities_json(entities):
    return [{"uid": uid_json(e["uid"]),
             "attrs": {k: value_json(v) for k, v in e["attrs"]},
             "parents": [uid_json(p) for p in e["parents"]],
             "tags": {k: value_json(v) for k, v in e.get("tags", [])}} for e in entities]


def request_json(q):
    return {"principal": uid_json(q["principal"]), "action": uid_json(q["action"]),
            "resource": uid_json(q["resource"]),
            "context": {k: value_json(v) for k, v in q["context"]}}


# ------------------------------------------------------------------ canonical forms of results
def canon_value_from_rust(j):
    """Rust harness value JSON -> canonical hashable Python value"""
    (k, v), = j.items()
    if k == "bool":
        return ("bool", v)
    if k == "long":
        return ("long", int(v))
    if k == "string":
        return ("string", tuple(v))
    if k == "entity":
        return ("entity", tuple(tuple(c) for c in v["type"]), tuple(v["id"]))
    if k == "set":
        items = sorted(set(canon_value_from_rust(x) for x in v), key=repr)
        return ("set", tuple(items))
    if k == "record":
        return ("record", tuple((tuple(kk), canon_value_from_rust(x)) for kk, x in v))
    if k == "ext":
        if v[0] == "ip":
            return ("ext", "ip", bool(v[1]), int(v[2]), int(v[3]))
        if v[0] in ("decimal", "datetime", "duration"):
            return ("ext", v[0], int(v[1]))
        return ("ext", "unreadable", repr(v))
    raise ValueError(j)


def canon_value_from_model(s):
    """model value S-expression -> the same canonical form"""
    tag = s[0]
    if tag == "prim":
        p = s[1]
        if p[0] == "bool":
            return ("bool", p[1] == "true")
        if p[0] == "long":
            return ("long", p[1])
        if p[0] == "string":
            return ("string", tuple(p[1]))
        if p[0] == "entity":
            u = p[1]
            return ("entity", tuple(tuple(c) for c in u[1]), tuple(u[2]))
    if tag == "set":
        items = sorted(set(canon_value_from_model(x) for x in s[1]), key=repr)
        return ("set", tuple(items))
    if tag == "record":
        return ("record", tuple((tuple(kv[0]), canon_value_from_model(kv[1])) for kv in s[1]))
    if tag == "ext":
        x = s[1]
        if x[0] == "ip":
            return ("ext", "ip", x[1] == "true", x[2], x[3])
        return ("ext", str(x[0]), x[1])
    raise ValueError(s)


RUST_ERR_CLASS = {
    "EntityDoesNotExist": "ErrEntityMissing",
    "EntityAttrDoesNotExist": "ErrAttrMissing",
    "RecordAttrDoesNotExist": "ErrAttrMissing",
    "FailedExtensionFunctionLookup": "ErrUnknownFn",
    "TypeError": "ErrType",
    "WrongNumArguments": "ErrArity",
    "IntegerOverflow": "ErrOverflow",
    "UnlinkedSlot": "ErrUnlinkedSlot",
    "FailedExtensionFunctionExecution": "ErrExt",
    "NonValue": "ErrNonValue",
}


def canon_result_from_rust(j):
    if "ok" in j:
        return ("ok", canon_value_from_rust(j["ok"]))
    if "err" in j:
        return ("err", RUST_ERR_CLASS.get(j["err"], j["err"]))
    if "panic" in j:
        return ("panic", j["panic"])
    if "parse_error" in j:
        return ("parse_error", j["parse_error"])
    return ("harness_error", j.get("harness_error"))


def canon_result_from_model(s):
    if isinstance(s, list) and s and s[0] == "ok":
        return ("ok", canon_value_from_model(s[1]))
    if isinstance(s, list) and s and s[0] == "err":
        return ("err", str(s[1]))
    return ("model_error", repr(s))


# ------------------------------------------------------------------ policies
# policy: {"id", "effect", "principal": cons, "action": acons, "resource": cons,
#          "conds": [("when"|"unless", expr)], "annotations": [(k, v)]}
# cons : ("any",) | ("eq", ref) | ("in", ref) | ("is", ty) | ("isin", ty, ref)   ref: uid | "slot"
# acons: ("any",) | ("eq", uid) | ("in", [uid])
# link : {"id", "template": tid, "slots": [("principal"|"resource", uid)]}
def mk_and(a, b):
    if a[0] == "lit" and b[0] == "lit" and a[1][0] == "bool" and b[1][0] == "bool":
        return ("lit", ("bool", a[1][1] and b[1][1]))
    return ("and", a, b)


def policy_body(conds):
    es = [e if k == "when" else ("unop", "not", e) for k, e in conds]
    if not es:
        return None
    acc = es[-1]
    for e in reversed(es[:-1]):
        acc = mk_and(e, acc)
    return acc


def ref_sx(r):
    return Sym("slot") if r == "slot" else uid_sx(r)


def cons_sx(c):
    if c[0] == "any":
        return Sym("any")
    if c[0] in ("eq", "in"):
        return [Sym(c[0]), ref_sx(c[1])]
    if c[0] == "is":
        return [Sym("is"), name_sx(c[1])]
    return [Sym("isin"), name_sx(c[1]), ref_sx(c[2])]


def acons_sx(c):
    if c[0] == "any":
        return Sym("any")
    if c[0] == "eq":
        return [Sym("eq"), uid_sx(c[1])]
    return [Sym("in"), [uid_sx(u) for u in c[1]]]


def opt_sx(x, f):
    return Sym("none") if x is None else [Sym("some"), f(x)]


def template_sx(p):
    return [Sym("template"), Str(p["id"]), [[Str(k), Str(v)] for k, v in p.get("annotations", [])],
            Sym(p["effect"]), cons_sx(p["principal"]), acons_sx(p["action"]), cons_sx(p["resource"]),
            opt_sx(policy_body(p["conds"]), expr_sx)]


def policy_sx(p, templates=None):
    """static policy, or link (then `templates` maps template id -> template dict)"""
    if "template" in p:
        t = templates[p["template"]]
        return [Sym("policy"), template_sx(t), [Sym("some"), Str(p["id"])], slots_sx(p["slots"])]
    return [Sym("policy"), template_sx(p), Sym("none"), []]


def ref_text(r, var):
    return "?" + var if r == "slot" else uid_text(r)


def cons_text(c, var):
    if c[0] == "any":
        return var
    if c[0] == "eq":
        return "%s == %s" % (var, ref_text(c[1], var))
    if c[0] == "in":
        return "%s in %s" % (var, ref_text(c[1], var))
    if c[0] == "is":
        return "%s is %s" % (var, type_text(c[1]))
    return "%s is %s in %s" % (var, type_text(c[1]), ref_text(c[2], var))


def acons_text(c, single_form=False):
    if c[0] == "any":
        return "action"
    if c[0] == "eq":
        return "action == %s" % uid_text(c[1])
    if single_form and len(c[1]) == 1:
        return "action in %s" % uid_text(c[1][0])
    return "action in [%s]" % ", ".join(uid_text(u) for u in c[1])


def policy_text(p, single_form=False):
    ann = "".join("@%s(%s)\n" % (k, str_lit(v)) for k, v in p.get("annotations", []))
    conds = "".join(" %s { %s }" % (k, expr_text(e)) for k, e in p["conds"])
    return "%s%s(%s, %s, %s)%s;" % (ann, p["effect"], cons_text(p["principal"], "principal"),
                                     acons_text(p["action"], single_form), cons_text(p["resource"], "resource"), conds)
