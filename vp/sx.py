"""S-expression text <-> Python.  Python form:
   int -> SI ; Str(list of code points) -> SS ; Sym(name) -> SY ; list -> SL."""


class Sym(str):
    __slots__ = ()

    def __repr__(self):
        return "Sym(%s)" % str.__repr__(self)


class Str(tuple):
    """a model `str`: tuple of scalar values"""
    __slots__ = ()

    def __new__(cls, s):
        if isinstance(s, str):
            return tuple.__new__(cls, [ord(c) for c in s])
        return tuple.__new__(cls, s)

    def text(self):
        return "".join(chr(c) for c in self)


def dump(x, out=None):
    top = out is None
    if top:
        out = []
    if isinstance(x, bool):
        out.append("true" if x else "false")
    elif isinstance(x, int):
        out.append(str(x))
    elif isinstance(x, Sym):
        out.append(str(x))
    elif isinstance(x, Str):
        out.append("[" + " ".join(map(str, x)) + "]")
    elif isinstance(x, (list, tuple)):
        out.append("(")
        first = True
        for y in x:
            if not first:
                out.append(" ")
            first = False
            dump(y, out)
        out.append(")")
    else:
        raise TypeError("cannot dump %r" % (x,))
    if top:
        return "".join(out)


def parse(s):
    pos = 0
    n = len(s)

    def item():
        nonlocal pos
        while pos < n and s[pos] in " \t\r\n":
            pos += 1
        c = s[pos]
        if c == "(":
            pos += 1
            items = []
            while True:
                while pos < n and s[pos] in " \t\r\n":
                    pos += 1
                if s[pos] == ")":
                    pos += 1
                    return items
                items.append(item())
        if c == "[":
            end = s.index("]", pos)
            body = s[pos + 1:end].split()
            pos = end + 1
            return Str([int(t) for t in body])
        st = pos
        while pos < n and s[pos] not in " \t\r\n()[]":
            pos += 1
        tok = s[st:pos]
        if tok[0] == "-" or tok[0].isdigit():
            return int(tok)
        return Sym(tok)

    return item()


def to_coq(x):
    """render as a Coq term of type sexp (for the vm_compute cross-check)"""
    if isinstance(x, bool):
        return '(SY "%s")' % ("true" if x else "false")
    if isinstance(x, int):
        return "(SI (%d))" % x
    if isinstance(x, Sym):
        return '(SY "%s")' % str(x)
    if isinstance(x, Str):
        return "(SS [" + "; ".join("%d%%N" % c for c in x) + "])"
    if isinstance(x, (list, tuple)):
        return "(SL [" + "; ".join(to_coq(y) for y in x) + "])"
    raise TypeError(x)
