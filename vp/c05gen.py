"""C05 generators: Cedar TEXT from the shared Python AST (vp/cedar.py) in several parenthesisation
   styles, token-level whitespace/comment insertion, systematic tables (operator-pair nesting,
   unary minus / i64 boundaries, call styles, reserved words, escapes), policies / templates /
   policy sets, and a text mutator for the reject side."""
import itertools

import cedar
import gen
from cedar import I64_MAX, I64_MIN, U

RESERVED_WORDS = ["true", "false", "if", "then", "else", "in", "is", "like", "has", "__cedar"]
KEYWORD_IDENTS = ["principal", "action", "resource", "context", "permit", "forbid", "when", "unless"]

# grammar levels
L_EXPR, L_OR, L_AND, L_REL, L_ADD, L_MUL, L_UNARY, L_MEMBER, L_PRIMARY = range(9)

EXT_FUNCS = {
    # name: (style, arity incl. receiver)
    "decimal": ("f", 1), "ip": ("f", 1), "datetime": ("f", 1), "duration": ("f", 1),
    "lessThan": ("m", 2), "lessThanOrEqual": ("m", 2), "greaterThan": ("m", 2), "greaterThanOrEqual": ("m", 2),
    "isIpv4": ("m", 1), "isIpv6": ("m", 1), "isLoopback": ("m", 1), "isMulticast": ("m", 1), "isInRange": ("m", 2),
    "offset": ("m", 2), "durationSince": ("m", 2), "toDate": ("m", 1), "toTime": ("m", 1),
    "toMilliseconds": ("m", 1), "toSeconds": ("m", 1), "toMinutes": ("m", 1), "toHours": ("m", 1), "toDays": ("m", 1),
}


def str_tok(s, rng=None):
    """a STRINGLIT token for the string s; with rng, picks among equivalent escape spellings"""
    out = ['"']
    for c in s:
        o = ord(c)
        forms = []
        if c == '"':
            forms = ['\\"', "\\u{22}", "\\x22"]
        elif c == "\\":
            forms = ["\\\\", "\\u{5c}", "\\x5C"]
        elif c == "\n":
            forms = ["\\n", "\\u{a}", "\n", "\\x0a"]
        elif c == "\r":
            forms = ["\\r", "\\u{d}"]
        elif c == "\t":
            forms = ["\\t", "\t", "\\u{9}"]
        elif c == "\0":
            forms = ["\\0", "\\u{0}", "\\x00", "\0"]
        elif c == "'":
            forms = ["'", "\\'"]
        elif 0x20 <= o < 0x7F:
            forms = [c, c, c, "\\u{%x}" % o, "\\x%02x" % o]
        else:
            forms = [c, "\\u{%x}" % o, "\\u{%06X}" % o, "\\u{%x_}" % o]
        out.append(forms[0] if rng is None else rng.choice(forms))
    out.append('"')
    return "".join(out)


def pat_tok(p, rng=None):
    out = ['"']
    for c in p:
        if c == ("*",):
            out.append("*" if rng is None else rng.choice(["*", "*", "\\u{2a}", "\\x2a"]))
        elif c == "*":
            out.append("\\*")
        else:
            out.append(str_tok(c, rng)[1:-1])
    out.append('"')
    return "".join(out)


def uid_toks(u, rng=None):
    out = []
    for c in u[1]:
        out += [c, "::"]
    out.append(str_tok(u[2], rng))
    return out


def name_toks(n):
    out = []
    for i, c in enumerate(n):
        if i:
            out.append("::")
        out.append(c)
    return out


class Render:
    """style: 'min' (precedence-minimal), 'full' (every operand parenthesised), 'redundant' (full + extra)"""

    def __init__(self, style="min", rng=None, vary=False):
        self.style, self.rng, self.vary = style, rng, vary

    def r(self):
        return self.rng if self.vary else None

    def paren(self, toks):
        out = ["("] + toks + [")"]
        if self.style == "redundant" and self.rng is not None and self.rng.random() < 0.35:
            out = ["("] + out + [")"]
        return out

    def at(self, e, level):
        lv, toks = self.node(e)
        if lv < level or (self.style != "min" and lv < L_PRIMARY):
            return self.paren(toks)
        return toks

    def unary_chain(self, e):
        """(count, op, toks) for a chain of the same prefix operator printed without parens"""
        k = e[0]
        if k == "lit" and e[1][0] == "long" and e[1][1] < 0:
            return 1, "-", ["-", str(-e[1][1])]
        if k == "unop" and e[1] in ("not", "neg"):
            op = "!" if e[1] == "not" else "-"
            a = e[2]
            if self.style == "min":
                isneglit = a[0] == "lit" and a[1][0] == "long" and a[1][1] < 0
                if (a[0] == "unop" and a[1] == e[1]) or (op == "-" and isneglit):
                    n, _, toks = self.unary_chain(a)
                    if n < 4:
                        return n + 1, op, [op] + toks
            if op == "-" and a[0] == "lit" and a[1][0] == "long" and a[1][1] >= 0:
                return 1, op, [op, "(", str(a[1][1]), ")"]
            return 1, op, [op] + self.at(a, L_MEMBER)
        raise ValueError(e)

    def attr_access(self, a):
        if cedar.is_ident(a) and not (self.vary and self.rng.random() < 0.3):
            return [".", a]
        return ["[", str_tok(a, self.r()), "]"]

    def args(self, es):
        out = []
        for i, a in enumerate(es):
            if i:
                out.append(",")
            out += self.at(a, L_EXPR)
        return out

    def node(self, e):
        k = e[0]
        if k == "lit":
            pk, pv = e[1]
            if pk == "bool":
                return L_PRIMARY, ["true" if pv else "false"]
            if pk == "long":
                if pv < 0:
                    return L_UNARY, self.unary_chain(e)[2]
                return L_PRIMARY, [str(pv)]
            if pk == "string":
                return L_PRIMARY, [str_tok(pv, self.r())]
            return L_PRIMARY, uid_toks(pv, self.r())
        if k == "var":
            return L_PRIMARY, [e[1]]
        if k == "slot":
            return L_PRIMARY, ["?" + e[1]]
        if k == "unknown":
            return L_MEMBER, ["unknown", "(", str_tok(e[1]), ")"]
        if k == "if":
            return L_EXPR, ["if"] + self.at(e[1], L_EXPR) + ["then"] + self.at(e[2], L_EXPR) + ["else"] + self.at(e[3], L_EXPR)
        if k == "or":
            return L_OR, self.at(e[1], L_OR) + ["||"] + self.at(e[2], L_AND)
        if k == "and":
            return L_AND, self.at(e[1], L_AND) + ["&&"] + self.at(e[2], L_REL)
        if k == "unop":
            if e[1] == "isEmpty":
                return L_MEMBER, self.at(e[2], L_MEMBER) + [".", "isEmpty", "(", ")"]
            return L_UNARY, self.unary_chain(e)[2]
        if k == "binop":
            op = e[1]
            if op in ("eq", "less", "lesseq", "in"):
                return L_REL, self.at(e[2], L_ADD) + [cedar.BINOP_TEXT[op]] + self.at(e[3], L_ADD)
            if op in ("add", "sub"):
                return L_ADD, self.at(e[2], L_ADD) + [cedar.BINOP_TEXT[op]] + self.at(e[3], L_MUL)
            if op == "mul":
                return L_MUL, self.at(e[2], L_MUL) + ["*"] + self.at(e[3], L_UNARY)
            return L_MEMBER, self.at(e[2], L_MEMBER) + [".", op, "("] + self.at(e[3], L_EXPR) + [")"]
        if k == "ext":
            fn, args = e[1], e[2]
            if fn in cedar.METHOD_EXT and args:
                return L_MEMBER, self.at(args[0], L_MEMBER) + [".", fn, "("] + self.args(args[1:]) + [")"]
            return L_MEMBER, [fn, "("] + self.args(args) + [")"]
        if k == "getattr":
            return L_MEMBER, self.at(e[1], L_MEMBER) + self.attr_access(e[2])
        if k == "hasattr":
            a = e[2]
            rhs = [a] if (cedar.is_ident(a) and not (self.vary and self.rng.random() < 0.3)) else [str_tok(a, self.r())]
            return L_REL, self.at(e[1], L_ADD) + ["has"] + rhs
        if k == "like":
            return L_REL, self.at(e[1], L_ADD) + ["like", pat_tok(e[2], self.r())]
        if k == "is":
            return L_REL, self.at(e[1], L_ADD) + ["is"] + name_toks(e[2])
        if k == "set":
            return L_PRIMARY, ["["] + self.args(e[1]) + ["]"]
        if k == "record":
            out = ["{"]
            for i, (kk, v) in enumerate(e[1]):
                if i:
                    out.append(",")
                if cedar.is_ident(kk) and not (self.vary and self.rng.random() < 0.4):
                    out.append(kk)
                else:
                    out.append(str_tok(kk, self.r()))
                out.append(":")
                out += self.at(v, L_EXPR)
            out.append("}")
            return L_PRIMARY, out
        raise ValueError(e)

    def expr(self, e):
        return self.at(e, L_EXPR) if self.style == "min" else self.node(e)[1]


def wordy(c):
    return c.isalnum() or c in "_?"


def join(toks, rng=None, mode="space"):
    """tokens -> text.  mode: tight | space | random (random whitespace and // comments)"""
    out = []
    for i, t in enumerate(toks):
        if i:
            prev = toks[i - 1]
            need = wordy(prev[-1]) and wordy(t[0])
            if mode == "tight":
                sep = " " if need else ""
            elif mode == "space":
                sep = " "
            else:
                c = rng.random()
                if c < 0.35:
                    sep = " " if need else ""
                elif c < 0.7:
                    sep = " "
                elif c < 0.8:
                    sep = "\n"
                elif c < 0.87:
                    sep = " \t "
                elif c < 0.94:
                    sep = " // c" + rng.choice(["", " \"x", " */ permit", "\u00e9"]) + "\n"
                else:
                    sep = "\r\n  "
            out.append(sep)
        out.append(t)
    return "".join(out)


# ------------------------------------------------------------------ systematic tables
def L(z):
    return ("lit", ("long", z))


def S(x):
    return ("lit", ("string", x))


P = ("var", "principal")
CTX = ("var", "context")
DEC = ("ext", "decimal", [S("1.5")])
ENT = ("lit", ("entity", U(("NS", "T"), "a\"b")))


def constructors():
    """name -> function building the construct from operand expressions (slot positions listed)"""
    c = {}
    c["if_c"] = (1, lambda x: ("if", x, L(1), L(2)))
    c["if_t"] = (1, lambda x: ("if", P, x, L(2)))
    c["if_e"] = (1, lambda x: ("if", P, L(1), x))
    for op in ("and", "or"):
        c[op + "_l"] = (1, lambda x, op=op: (op, x, P))
        c[op + "_r"] = (1, lambda x, op=op: (op, P, x))
    for op in ("eq", "less", "lesseq", "add", "sub", "mul", "in", "contains", "containsAll", "containsAny", "getTag", "hasTag"):
        c[op + "_l"] = (1, lambda x, op=op: ("binop", op, x, P))
        c[op + "_r"] = (1, lambda x, op=op: ("binop", op, P, x))
    for op in ("not", "neg", "isEmpty"):
        c[op] = (1, lambda x, op=op: ("unop", op, x))
    c["getattr"] = (1, lambda x: ("getattr", x, "foo"))
    c["getattr_q"] = (1, lambda x: ("getattr", x, "a b"))
    c["hasattr"] = (1, lambda x: ("hasattr", x, "foo"))
    c["hasattr_q"] = (1, lambda x: ("hasattr", x, "if"))
    c["like"] = (1, lambda x: ("like", x, ["a", ("*",), "*"]))
    c["is"] = (1, lambda x: ("is", x, ("NS", "T")))
    c["set"] = (1, lambda x: ("set", [x, L(1)]))
    c["record"] = (1, lambda x: ("record", [("k", x)]))
    c["fn_arg"] = (1, lambda x: ("ext", "decimal", [x]))
    c["meth_recv"] = (1, lambda x: ("ext", "lessThan", [x, DEC]))
    c["meth_arg"] = (1, lambda x: ("ext", "lessThan", [DEC, x]))
    c["meth0_recv"] = (1, lambda x: ("ext", "isIpv4", [x]))
    return c


LEAVES = [P, L(1), L(-1), L(I64_MIN), L(I64_MAX), S("s"), ("lit", ("bool", True)), ENT, CTX,
          ("set", []), ("record", []), DEC]


def nesting_table(tier):
    """every constructor position x every constructor (depth 2) x leaves; depth 3 sample in thorough"""
    cs = constructors()
    out = []
    inner_leaves = [P, L(1), L(-7)] if tier == "quick" else LEAVES
    for on, (_, outer) in cs.items():
        for leaf in LEAVES:
            out.append(("nest1:" + on, outer(leaf)))
        for inn, (_, inner) in cs.items():
            for leaf in inner_leaves:
                out.append(("nest2:%s/%s" % (on, inn), outer(inner(leaf))))
    return out


def minus_texts():
    """texts (not ASTs) around unary minus and the i64 boundary; both accepted and rejected ones"""
    lits = ["0", "1", "-1", "--1", "---1", "----1", "-----1", "-(1)", "-(-1)", "- 1", "-\n1", "(-1)", "-(-(1))",
            "9223372036854775807", "9223372036854775808", "-9223372036854775808", "--9223372036854775808",
            "-(9223372036854775808)", "-9223372036854775809", "- 9223372036854775808", "(-9223372036854775808)",
            "-(-9223372036854775808)", "18446744073709551615", "18446744073709551616", "-18446744073709551616",
            "00", "-00", "007", "-1.foo", "-1[\"a\"]", "(-1).foo", "-principal", "--principal", "-principal.foo",
            "!true", "!!true", "!!!!true", "!!!!!true", "!-1", "-!true", "!(-1)", "-(!true)", "-\"s\"", "-1.isEmpty()",
            "-context.n", "- - 1", "-//c\n1", "-(1).foo", "-(1)[\"k\"]", "-decimal(\"1.0\")", "-[1]", "-{}", "-if true then 1 else 2",
            "-(if true then 1 else 2)"]
    ctxs = ["{}", "{} + 1", "1 + {}", "1 - {}", "{} - 1", "1 * {}", "{} * 2", "{} == 1", "1 < {}", "[{}]", "{{k: {}}}",
            "({}).foo", "{}.foo", "if {} then {} else {}", "{} in {}", "context.n.contains({})", "decimal({})",
            "!{}", "-{}", "-({})", "{} has foo", "{} like \"a\"", "{} is T", "{} && {}", "{} || true",
            "principal.lessThan({})", "{}.lessThan(1)", "{}[\"k\"]", "{}.isEmpty()", "({})", "(({}))"]
    out = []
    for l in lits:
        for c in ctxs:
            out.append(c.replace("{{", "\0").replace("}}", "\1").replace("{}", l).replace("\0", "{").replace("\1", "}"))
    return out


def call_style_texts():
    out = []
    recvs = ["principal", "context.d", "decimal(\"1.0\")", "(1)", "\"s\"", "ip(\"1.2.3.4\")", "[1]", "T::\"a\"", "-1", "(-1)", "true", "foo", "A::B"]
    for fn, (style, ar) in EXT_FUNCS.items():
        for r in recvs:
            for extra in range(0, 3):
                args = ["\"1\"", "context.x", "2"][:extra]
                out.append("%s.%s(%s)" % (r, fn, ", ".join(args)))
                out.append("%s(%s)" % (fn, ", ".join([r] + args)))
                out.append("%s(%s,)" % (fn, ", ".join([r] + args)))
        out.append("%s()" % fn)
        out.append("principal.%s" % fn)
        out.append("%s" % fn)
        out.append("NS::%s(\"1\")" % fn)
        out.append("principal.NS::%s(\"1\")" % fn)
    for m in ["contains", "containsAll", "containsAny", "isEmpty", "getTag", "hasTag", "unknown", "nosuch", "Contains"]:
        for r in recvs:
            for args in ["", "1", "1, 2", "1,"]:
                out.append("%s.%s(%s)" % (r, m, args))
                out.append("%s(%s)" % (m, ", ".join(x for x in [r, args] if x)))
    out += ["principal()", "principal(1)", "(principal)(1)", "principal.foo()", "principal.foo(1)(2)", "[1](2)", "\"s\"(1)",
            "principal[\"a\"](1)", "principal.contains(1).contains(2)", "principal.contains(1)[\"a\"].b", "unknown(\"x\")",
            "unknown(\"x\").foo", "unknown(1)", "unknown()", "principal.unknown(\"x\")", "foo", "foo.bar", "foo[\"a\"]", "A::B.c",
            "A::B::\"x\".c", "A::B::\"x\"[\"c\"]", "A::\"x\".contains(1)", "?principal", "?resource", "?other", "?principal.foo",
            "principal[\"a\"][\"b\"].c[\"d\"]", "principal[1]", "principal[a]", "principal[\"a\" + \"b\"]", "principal[principal]",
            "principal[true]", "principal.\"a\"", "principal.1", "1.a", "true.a", "\"s\".a", "{}.a", "[].a", "{a: 1}.a", "{a: 1}[\"a\"]",
            "A::{a: 1}", "A::B::{}", "true::\"a\"", "if::\"a\"", "principal::\"a\"", "A::if::\"a\"", "permit::when::\"a\"", "context::\"a\""]
    return out


def reserved_texts():
    out = []
    words = RESERVED_WORDS + KEYWORD_IDENTS + ["foo", "_", "_1", "If", "TRUE", "x1"]
    for w in words:
        out += ["principal.%s" % w, "principal[\"%s\"]" % w, "principal has %s" % w, "principal has \"%s\"" % w,
                "principal has %s.%s" % (w, w), "principal has a.%s" % w, "principal has %s.a" % w, "principal has \"%s\".a" % w,
                "{%s: 1}" % w, "{\"%s\": 1}" % w, "{%s: 1, \"%s\": 2}" % (w, w), "{a: 1, %s: 2}" % w,
                "%s" % w, "%s.a" % w, "%s::\"a\"" % w, "A::%s::\"a\"" % w, "principal is %s" % w, "principal is A::%s" % w,
                "principal.%s.contains(1)" % w, "principal.%s(1)" % w, "%s(1)" % w, "{%s: {%s: 1}}.%s" % (w, w, w),
                "context.%s.%s" % (w, w), "principal has %s && true" % w, "principal has a.b.%s" % w,
                "{%s: 1}[\"%s\"]" % (w, w), "{\"%s\": 1}.%s" % (w, w), "principal is %s in principal" % w]
    out += ["{a: 1, a: 2}", "{a: 1, \"a\": 2}", "{\"a\": 1, \"\\u{61}\": 2}", "{1: 2}", "{principal.a: 1}", "{A::b: 1}", "{(a): 1}",
            "{a: 1,}", "{,}", "{a:1 b:2}", "principal has a.b.c", "principal has a[\"b\"]", "principal has (a)", "principal has a.b()",
            "principal has 1", "principal has a + 1", "principal has -a", "principal has A::b", "principal has true", "principal has true.a",
            "principal has principal", "principal has principal.context", "principal has context.a", "principal has \"a\" has \"b\"",
            "1 == 2 == 3", "1 < 2 < 3", "1 < 2 == true", "(1 < 2) == true", "1 in 2 in 3", "principal is A is B", "principal is A == true",
            "principal is A in B::\"x\"", "principal is A in B::\"x\" in C::\"y\"", "principal in A::\"x\" is A", "principal is \"A\"",
            "principal is 1", "principal is (A)", "principal is A::B::C in [A::\"x\"]", "1 / 2", "1 % 2", "1 * 2 / 3", "1 = 2", "1 != 2",
            "1 > 2", "1 >= 2", "1 =< 2", "a == b", "principal like principal", "principal like 1", "principal like \"a\" like \"b\"",
            "\"a\" like \"\\*\\u{2a}*\"", "\"a\" like \"\\q\"", "\"a\" like (\"a\")", "true && true", "true && false || true", "true || true",
            "false || false", "true && (true && true)", "!true && true", "if true && true then 1 else 2", "[true && true]",
            "true && principal", "(true) && (true)", "principal is A && principal in B::\"x\"", "(principal is A) && (principal in B::\"x\")"]
    return out


ESC_STRINGS = ["", "a", "\"", "\\", "'", "\n", "\r", "\t", "\0", "*", "\\*", "a\"b\\c", "\u0301", "a\u0301", "\u0301\u0301", "\U0001F600",
               "\u200b", "\u00ad", "\x7f", "\x1b", "\u00e9", "e\u0301", "\ufeff", "\U000E0100", "a\U000E0100", "\u0600", "\u2028", "\u00a0",
               " ", "  a ", "//", "/*", "\U0010FFFF", "\ud7ff", "\ue000", "\u0378", "a\u0378", "\\n", "\\u{41}", "{", "}", "u{1}"]

RAW_ESCAPES = ["\\n", "\\r", "\\t", "\\0", "\\\\", "\\\"", "\\'", "\\x41", "\\x7f", "\\x80", "\\xff", "\\x4", "\\xg1", "\\u{41}", "\\u{0}",
               "\\u{10ffff}", "\\u{110000}", "\\u{d800}", "\\u{dfff}", "\\u{d7ff}", "\\u{e000}", "\\u{}", "\\u{_41}", "\\u{4_1}", "\\u{41_}",
               "\\u{0000041}", "\\u{000041}", "\\u{1F600}", "\\u{1f600}", "\\u41", "\\u{41", "\\u", "\\U{41}", "\\*", "\\q", "\\ ", "\\a",
               "\\\n  x", "\\\n\n x", "\\\r\n x", "\\/", "\\$", "\\e", "\\x", "\\x1", "\\u{g}", "\\u{-1}", "\\u{ 41}", "\\{", "\r", "\\\r",
               "\\u{2a}", "\\x2a", "\\u{5c}*", "\\\\*", "\\\\\\*", "\\"]


def escape_texts(rng):
    """texts exercising strings / eids / patterns / record keys / attribute names with every escape form"""
    out = []
    for s in ESC_STRINGS:
        t = str_tok(s)
        out += [t, "A::" + t, "principal[%s]" % t, "{%s: 1}" % t, "principal has %s" % t, "\"\" like %s" % t,
                "principal like " + pat_tok(list(s) + [("*",)]), "%s == %s" % (t, str_tok(s, rng)), "A::B::%s in [A::%s]" % (t, str_tok(s, rng))]
    for r in RAW_ESCAPES:
        for pre, post in [("", ""), ("a", "b"), ("\\\\", ""), ("*", "*")]:
            t = '"' + pre + r + post + '"'
            out += [t, "A::" + t, "principal[%s]" % t, "{%s: 1}" % t, "principal has %s" % t, "\"\" like %s" % t]
    return out


# ------------------------------------------------------------------ policies
ANN_KEYS = ["id", "a", "if", "in", "true", "permit", "when", "_x", "B", "principal", "__cedar", "Z9"]


def gen_uid(rng, action=False):
    if action:
        return U(rng.choice([("Action",), ("NS", "Action")]), rng.choice(["view", "edit", "x y", "q\"\\", ""]))
    return U(rng.choice(gen.TYPES[:3]), rng.choice(gen.IDS + ["\n", "\0", "\u0301", "'"]))


def gen_policy(rng, world, depth, allow_slots=True):
    g = gen.ExprGen(world, rng, allow_slots=False)

    def ref():
        return "slot" if (allow_slots and rng.random() < 0.3) else gen_uid(rng)

    def cons():
        c = rng.randint(0, 5)
        if c == 0:
            return ("any",)
        if c == 1:
            return ("eq", ref())
        if c == 2:
            return ("in", ref())
        if c == 3:
            return ("is", rng.choice(gen.TYPES))
        if c == 4:
            return ("isin", rng.choice(gen.TYPES), ref())
        return ("any",)

    ac = rng.randint(0, 3)
    if ac == 0:
        action = ("any",)
    elif ac == 1:
        action = ("eq", gen_uid(rng, True))
    else:
        action = ("in", [gen_uid(rng, True) for _ in range(rng.choice([0, 1, 1, 2, 3]))])
    conds = [(rng.choice(["when", "unless"]), g.gen("bool" if rng.random() < 0.7 else None, rng.randint(0, depth)))
             for _ in range(rng.choice([0, 1, 1, 2, 3]))]
    keys = rng.sample(ANN_KEYS, rng.choice([0, 0, 1, 2, 4]))
    anns = [(k, rng.choice(ESC_STRINGS + gen.STRINGS)) for k in keys]
    return {"id": "p", "effect": rng.choice(["permit", "forbid"]), "principal": cons(), "action": action,
            "resource": cons(), "conds": conds, "annotations": anns}


def policy_toks(p, rd, rng):
    out = []
    for k, v in p["annotations"]:
        out += ["@", k]
        if not (v == "" and rng.random() < 0.5):
            out += ["(", str_tok(v, rd.r()), ")"]
    out += [p["effect"], "("]

    def ref(r, var):
        return ["?" + var] if r == "slot" else uid_toks(r, rd.r())

    def cons(c, var):
        if c[0] == "any":
            return [var]
        if c[0] in ("eq", "in"):
            return [var, "==" if c[0] == "eq" else "in"] + ref(c[1], var)
        if c[0] == "is":
            return [var, "is"] + name_toks(c[1])
        return [var, "is"] + name_toks(c[1]) + ["in"] + ref(c[2], var)

    out += cons(p["principal"], "principal") + [","]
    a = p["action"]
    if a[0] == "any":
        out += ["action"]
    elif a[0] == "eq":
        out += ["action", "=="] + uid_toks(a[1], rd.r())
    elif len(a[1]) == 1 and rng.random() < 0.5:
        out += ["action", "in"] + uid_toks(a[1][0], rd.r())
    else:
        out += ["action", "in", "["]
        for i, u in enumerate(a[1]):
            if i:
                out.append(",")
            out += uid_toks(u, rd.r())
        out += ["]"]
    out += [","] + cons(p["resource"], "resource")
    if rng.random() < 0.1:
        out.append(",")
    out.append(")")
    for k, e in p["conds"]:
        out += [k, "{"] + rd.expr(e) + ["}"]
    out.append(";")
    return out


POLICY_TEXTS = [
    "permit(principal, action, resource);", "forbid(principal,action,resource,);", "permit(principal, action);", "permit();",
    "permit(principal, action, resource, context);", "permit(resource, action, principal);", "permit(principal, resource, action);",
    "permit(principal == ?principal, action, resource in ?resource);", "permit(principal == ?resource, action, resource);",
    "permit(principal in ?principal, action == ?action, resource);", "permit(principal, action in ?principal, resource);",
    "permit(principal is A in ?principal, action, resource is B::C);", "permit(principal is A == ?principal, action, resource);",
    "permit(principal in A::\"x\" is A, action, resource);", "permit(principal, action is A, resource);",
    "permit(principal, action in [A::\"x\"], resource);", "permit(principal, action in [Action::\"x\", NS::Action::\"y\"], resource);",
    "permit(principal, action in [], resource);", "permit(principal, action in [[Action::\"x\"]], resource);",
    "permit(principal, action == Action::\"a\", resource) when { ?principal == principal };",
    "permit(principal == ?principal, action, resource) when { ?principal == principal };",
    "permit(principal: User, action, resource);", "permit(principal != A::\"x\", action, resource);",
    "permit(principal < A::\"x\", action, resource);", "permit(principal = A::\"x\", action, resource);",
    "permit(principal == A::\"x\" , action, resource) when { true } unless { false } when { 1 < 2 };",
    "permit(principal, action, resource) when { };", "permit(principal, action, resource) when { true }", "permit(principal, action, resource) if { true };",
    "allow(principal, action, resource);", "@a(\"1\") @a(\"2\") permit(principal, action, resource);", "@a @b(\"\") @if permit(principal, action, resource);",
    "@a(1) permit(principal, action, resource);", "@a(\"\\q\") permit(principal, action, resource);", "@\"a\"(\"x\") permit(principal, action, resource);",
    "@a(\"x\", \"y\") permit(principal, action, resource);", "permit(principal == A::\"\\u{0}\\n\\\"\", action, resource);",
    "permit(principal == (A::\"x\"), action, resource);", "permit(principal == [A::\"x\"], action, resource);", "permit(principal in [A::\"x\"], action, resource);",
    "permit(principal == \"x\", action, resource);", "permit(principal == principal, action, resource);", "permit(principal == 1, action, resource);",
    "permit(principal == A::\"x\" && true, action, resource);", "permit(principal == if true then A::\"x\" else A::\"y\", action, resource);",
    "permit(principal is A in B::\"x\" in C::\"y\", action, resource);", "permit(principal is A::\"x\", action, resource);",
    "permit(principal is if, action, resource);", "permit(principal is principal, action, resource);",
    "permit(principal, action, resource) when { true && true };", "permit(principal, action, resource) when { true } when { true };",
    "permit(principal, action, resource) unless { true } unless { false };", "permit(principal, action, resource) when { principal is A in B::\"c\" };",
    "permit(principal, action, resource) when { principal has a.b.c };",
]


# ------------------------------------------------------------------ mutation (reject side)
MUT_TOKENS = ["(", ")", "[", "]", "{", "}", ",", ";", ":", "::", ".", "==", "!=", "<", "<=", ">", ">=", "&&", "||", "+", "-", "*", "/",
              "%", "!", "=", "@", "if", "then", "else", "in", "is", "has", "like", "true", "false", "principal", "action", "resource",
              "context", "permit", "forbid", "when", "unless", "?principal", "?resource", "?x", "1", "9223372036854775808", "\"s\"", "\"",
              "\\", "foo", "A::", "//", "/*", "\n", " ", "'", "`", "\u00e9", "\0", "&", "|", "-1", "()", ".foo", "[\"a\"]", ".contains(1)"]


def mutate(text, rng):
    if not text:
        return rng.choice(MUT_TOKENS)
    c = rng.randint(0, 5)
    i = rng.randrange(len(text) + 1)
    if c == 0:
        j = min(len(text), i + rng.choice([1, 1, 2, 5]))
        return text[:i] + text[j:]
    if c == 1:
        return text[:i] + rng.choice(MUT_TOKENS) + text[i:]
    if c == 2:
        j = min(len(text), i + rng.choice([1, 2, 3]))
        return text[:i] + rng.choice(MUT_TOKENS) + text[j:]
    if c == 3:
        j = rng.randrange(len(text) + 1)
        a, b = min(i, j), max(i, j)
        return text[:a] + text[b:] + text[a:b]
    if c == 4:
        j = min(len(text), i + rng.choice([1, 3, 8]))
        return text[:j] + text[i:j] + text[j:]
    return text[:i] + " " + rng.choice(MUT_TOKENS) + " " + text[i:]
