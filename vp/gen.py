"""Seeded generators: worlds (entity stores + requests) and type-directed expressions."""
from cedar import U, I64_MIN, I64_MAX

TYPES = [("User",), ("NS", "Group"), ("Photo",), ("Action",)]
IDS = ["alice", "bob", "x y", 'q"\\', "\U0001F600z", ""]
BOUNDARY_LONGS = [0, 1, -1, 2, 7, -7, 10, I64_MAX, I64_MIN, I64_MAX - 1, I64_MIN + 1, 2 ** 31, -(2 ** 31) - 1,
                  3037000500, -3037000500, 4294967296]
STRINGS = ["", "a", "ab", "abc", "a*b", "*", "\\", 'q"', "\u0000", "\U0001F600", "aab", "ba", "1.5", "héllo"]
ATTR_NAMES = ["n", "s", "b", "e", "set", "eset", "rec", "d", "if", "a b", "opt"]
DECIMAL_STRS = ["1.5", "0.0", "-0.0", "-1.2345", "922337203685477.5807", "-922337203685477.5808",
                "922337203685477.5808", "1.23456", "1.", ".5", "1", "abc", "00.10", "+1.0", "1.5 ", "１.５", "-.5", "1.-5"]


class World:
    def __init__(self, rng, n_entities=None, exts=("decimal",)):
        self.rng = rng
        self.exts = exts
        self.uids = [U(t, i) for t in TYPES[:3] for i in IDS[:4]]
        self.actions = [U(("Action",), i) for i in ["view", "edit", "x y"]]
        k = n_entities if n_entities is not None else rng.randint(0, 8)
        present = rng.sample(self.uids + self.actions, min(k, len(self.uids) + len(self.actions)))
        # acyclic parents: only to uids later in a fixed random order
        order = list(self.uids + self.actions)
        rng.shuffle(order)
        rank = {u: i for i, u in enumerate(order)}
        self.entities = []
        for u in present:
            cands = [v for v in order if rank[v] > rank[u] and (u[1] != ("Action",) or v[1] == ("Action",))]
            parents = rng.sample(cands, min(len(cands), rng.choice([0, 0, 1, 1, 2, 3])))
            self.entities.append({"uid": u, "attrs": self.gen_attrs(), "tags": self.gen_tags(), "parents": parents})
        self.present = present
        self.request = {
            "principal": rng.choice(self.uids), "action": rng.choice(self.actions),
            "resource": rng.choice(self.uids), "context": self.gen_attrs(),
        }

    # ---- values
    def any_uid(self):
        return self.rng.choice(self.uids + self.actions)

    def gen_long(self):
        r = self.rng
        return r.choice(BOUNDARY_LONGS) if r.random() < 0.5 else r.randint(-20, 20)

    def gen_ext_value(self):
        r = self.rng
        return ("ext", ("decimal", r.choice([0, 15000, -12345, I64_MAX, I64_MIN, 1, -1, r.randint(-10 ** 6, 10 ** 6)])))

    def gen_value(self, kind=None, depth=2):
        r = self.rng
        kind = kind or r.choice(["bool", "long", "string", "entity", "set", "record", "ext"])
        if kind == "bool":
            return ("prim", ("bool", r.random() < 0.5))
        if kind == "long":
            return ("prim", ("long", self.gen_long()))
        if kind == "string":
            return ("prim", ("string", r.choice(STRINGS)))
        if kind == "entity":
            return ("prim", ("entity", self.any_uid()))
        if kind == "ext":
            return self.gen_ext_value()
        if kind == "set":
            if depth <= 0:
                return ("set", [])
            ek = r.choice(["long", "string", "entity", "bool", "ext", "record", None])
            return ("set", [self.gen_value(ek, depth - 1) for _ in range(r.choice([0, 1, 2, 3]))])
        if kind == "record":
            if depth <= 0:
                return ("record", [])
            keys = r.sample(ATTR_NAMES, r.choice([0, 1, 2, 3]))
            return ("record", [(k, self.gen_value(None, depth - 1)) for k in sorted(keys)])
        raise ValueError(kind)

    ATTR_KIND = {"n": "long", "s": "string", "b": "bool", "e": "entity", "set": "set", "eset": "eset",
                 "rec": "record", "d": "ext", "if": "long", "a b": "string", "opt": None}

    def gen_attrs(self):
        r = self.rng
        out = []
        for k in ATTR_NAMES:
            if r.random() < 0.7:
                kind = self.ATTR_KIND[k]
                if kind == "eset":
                    v = ("set", [("prim", ("entity", self.any_uid())) for _ in range(r.choice([0, 1, 2, 3]))])
                elif kind == "set":
                    v = ("set", [("prim", ("long", self.gen_long())) for _ in range(r.choice([0, 1, 2, 3]))])
                elif kind == "record":
                    v = ("record", sorted([("n", ("prim", ("long", self.gen_long()))),
                                           ("s", ("prim", ("string", r.choice(STRINGS))))][:r.choice([1, 2])]))
                else:
                    v = self.gen_value(kind, 1)
                if r.random() < 0.08:
                    v = self.gen_value(None, 1)  # wrongly typed attribute
                out.append((k, v))
        return sorted(out)

    def gen_tags(self):
        r = self.rng
        return sorted((k, self.gen_value(r.choice(["long", "string", "entity"]), 1))
                      for k in r.sample(["t1", "t2", "a b", "n"], r.choice([0, 0, 1, 2])))


class ExprGen:
    def __init__(self, world, rng, p_wrong=0.12, p_err=0.06, allow_slots=False):
        self.w, self.r = world, rng
        self.p_wrong, self.p_err = p_wrong, p_err
        self.allow_slots = allow_slots

    KINDS = ["bool", "long", "string", "entity", "set", "record", "ext"]

    def lit(self, kind):
        v = self.w.gen_value(kind, 1)
        from cedar import value_expr
        return value_expr(v)

    def error_expr(self):
        r = self.r
        c = r.randint(0, 5)
        if c == 0:
            return ("binop", "add", ("lit", ("long", 1)), ("lit", ("string", "a")))          # type error
        if c == 1:
            return ("binop", "add", ("lit", ("long", I64_MAX)), ("lit", ("long", 1)))        # overflow
        if c == 2:
            return ("getattr", ("var", "context"), "missing")                                  # attr missing
        if c == 3:
            return ("getattr", ("lit", ("entity", U(("User",), "ghost"))), "n")                # entity missing
        if c == 4:
            return ("ext", "decimal", [("lit", ("string", "x"))])                              # ext error
        return ("binop", "getTag", ("var", "principal"), ("lit", ("string", "nope")))          # tag missing / entity missing

    def gen(self, kind=None, depth=3):
        r = self.r
        if kind is None:
            kind = r.choice(self.KINDS)
        if r.random() < self.p_err:
            return self.error_expr()
        if r.random() < self.p_wrong:
            kind = r.choice(self.KINDS)
        if depth <= 0:
            return self.leaf(kind)
        f = getattr(self, "gen_" + kind)
        return f(depth)

    def leaf(self, kind):
        r = self.r
        if kind == "entity":
            c = r.random()
            if c < 0.4:
                return ("var", r.choice(["principal", "action", "resource"]))
            if c < 0.45 and self.allow_slots:
                return ("slot", r.choice(["principal", "resource"]))
        if kind == "record" and r.random() < 0.5:
            return ("var", "context")
        return self.lit(kind)

    def entity_with_attr(self, depth):
        return self.gen("entity", depth - 1) if self.r.random() < 0.7 else self.gen("record", depth - 1)

    def attr_for(self, kind):
        m = {"long": ["n", "if"], "string": ["s", "a b"], "bool": ["b"], "entity": ["e"], "set": ["set", "eset"],
             "record": ["rec"], "ext": ["d"]}
        return self.r.choice(m[kind] + ["opt"] * 1)

    def common(self, kind, depth):
        """constructs available at every kind: if, getattr, getTag"""
        r = self.r
        c = r.random()
        if c < 0.15:
            return ("if", self.gen("bool", depth - 1), self.gen(kind, depth - 1), self.gen(kind, depth - 1))
        if c < 0.40:
            return ("getattr", self.entity_with_attr(depth), self.attr_for(kind))
        if c < 0.45:
            return ("binop", "getTag", self.gen("entity", depth - 1), self.gen("string", depth - 1)
                    if r.random() < 0.3 else ("lit", ("string", r.choice(["t1", "t2", "a b", "n", "zz"]))))
        return None

    def gen_bool(self, depth):
        r = self.r
        c = r.randint(0, 17)
        d = depth - 1
        if c == 0:
            return self.leaf("bool")
        if c == 1:
            return ("and", self.gen("bool", d), self.gen("bool", d))
        if c == 2:
            return ("or", self.gen("bool", d), self.gen("bool", d))
        if c == 3:
            return ("unop", "not", self.gen("bool", d))
        if c == 4:
            k = r.choice(self.KINDS)
            return ("binop", "eq", self.gen(k, d), self.gen(k, d))
        if c == 5:
            return ("binop", r.choice(["less", "lesseq"]), self.gen("long", d), self.gen("long", d))
        if c == 6:
            return ("binop", "in", self.gen("entity", d),
                    self.gen("entity", d) if r.random() < 0.5 else self.gen_set(d, "entity"))
        if c == 7:
            k = r.choice(["long", "string", "entity", "ext", "record"])
            return ("binop", "contains", self.gen_set(d, k), self.gen(k, d))
        if c == 8:
            k = r.choice(["long", "string", "entity", "ext"])
            return ("binop", r.choice(["containsAll", "containsAny"]), self.gen_set(d, k), self.gen_set(d, k))
        if c == 9:
            return ("hasattr", self.entity_with_attr(depth), r.choice(["n", "s", "e", "opt", "if", "a b", "zz"]))
        if c == 10:
            pat = [r.choice(["a", "b", "*", ("*",), ("*",), "\\", "\U0001F600"]) for _ in range(r.randint(0, 4))]
            return ("like", self.gen("string", d), pat)
        if c == 11:
            from gen import TYPES
            return ("is", self.gen("entity", d), r.choice(TYPES))
        if c == 12:
            return ("binop", "hasTag", self.gen("entity", d), ("lit", ("string", r.choice(["t1", "t2", "a b", "zz"]))))
        if c == 13:
            return ("unop", "isEmpty", self.gen_set(d, r.choice(["long", "entity"])))
        if c == 14 and "decimal" in self.w.exts:
            return ("ext", r.choice(["lessThan", "lessThanOrEqual", "greaterThan", "greaterThanOrEqual"]),
                    [self.gen("ext", d), self.gen("ext", d)])
        x = self.common("bool", depth)
        return x if x is not None else self.leaf("bool")

    def gen_long(self, depth):
        r = self.r
        c = r.randint(0, 5)
        d = depth - 1
        if c == 0:
            return self.leaf("long")
        if c in (1, 2):
            return ("binop", r.choice(["add", "sub", "mul"]), self.gen("long", d), self.gen("long", d))
        if c == 3:
            return ("unop", "neg", self.gen("long", d))
        x = self.common("long", depth)
        return x if x is not None else self.leaf("long")

    def gen_string(self, depth):
        x = self.common("string", depth)
        return x if x is not None else self.leaf("string")

    def gen_entity(self, depth):
        x = self.common("entity", depth)
        return x if x is not None else self.leaf("entity")

    def gen_ext(self, depth):
        r = self.r
        if r.random() < 0.5:
            if r.random() < 0.7:
                return ("ext", "decimal", [("lit", ("string", r.choice(DECIMAL_STRS)))])
            return ("ext", "decimal", [self.gen("string", depth - 1)])
        x = self.common("ext", depth)
        return x if x is not None else self.leaf("ext")

    def gen_set(self, depth, elem=None):
        r = self.r
        if r.random() < 0.6 or depth <= 0:
            elem = elem or r.choice(["long", "string", "entity", "bool", "ext"])
            n = r.choice([0, 1, 2, 2, 3])
            items = [self.gen(elem, depth - 1) for _ in range(n)]
            if items and r.random() < 0.3:
                items.append(r.choice(items))     # duplicate
            return ("set", items)
        x = self.common("set", depth)
        return x if x is not None else ("set", [])

    def gen_record(self, depth):
        r = self.r
        if r.random() < 0.5:
            keys = sorted(r.sample(ATTR_NAMES, r.choice([0, 1, 2, 3])))
            return ("record", [(k, self.gen(None, depth - 1)) for k in keys])
        x = self.common("record", depth)
        return x if x is not None else self.leaf("record")


def expr_size(e):
    if not isinstance(e, tuple):
        return 0
    n = 1
    for x in e[1:]:
        if isinstance(x, tuple) and x and isinstance(x[0], str) and x[0] in (
                "lit", "var", "slot", "unknown", "if", "and", "or", "unop", "binop", "ext", "getattr", "hasattr",
                "like", "is", "set", "record"):
            n += expr_size(x)
        elif isinstance(x, list):
            for y in x:
                if isinstance(y, tuple) and len(y) == 2 and isinstance(y[0], str) and isinstance(y[1], tuple) \
                        and y[1] and y[1][0] in ("lit", "var", "if", "and", "or", "unop", "binop", "ext", "getattr",
                                                 "hasattr", "like", "is", "set", "record", "slot", "unknown"):
                    n += expr_size(y[1])
                else:
                    n += expr_size(y) if isinstance(y, tuple) else 0
    return n


def expr_ops(e, acc):
    """histogram of constructors/operators"""
    if not isinstance(e, tuple) or not e or not isinstance(e[0], str):
        return
    k = e[0]
    if k in ("unop", "binop", "ext"):
        acc[k + ":" + e[1]] = acc.get(k + ":" + e[1], 0) + 1
    elif k in ("lit", "var", "slot", "unknown", "if", "and", "or", "getattr", "hasattr", "like", "is", "set", "record"):
        acc[k] = acc.get(k, 0) + 1
    else:
        return
    for x in e[1:]:
        if isinstance(x, tuple):
            expr_ops(x, acc)
        elif isinstance(x, list):
            for y in x:
                if isinstance(y, tuple) and len(y) == 2 and isinstance(y[0], str) and isinstance(y[1], tuple) and k == "record":
                    expr_ops(y[1], acc)
                elif isinstance(y, tuple):
                    expr_ops(y, acc)
