"""Typed expressions dumped by the harness `typecheck` command -> S-expressions of coq/model/TExpr.v
   (d_texpr, d_ty, d_reqenv), and -> the untyped Python AST of cedar.py."""
from sx import Sym, Str


def _name(n):
    return [Str(c) for c in n]


def _uid(u):
    return [Sym("uid"), _name(u["type"]), Str(u["id"])]


def ty_sx(t):
    if t is None:
        return Sym("none")
    if isinstance(t, str):
        return Sym(t)                      # never | long | string
    if "bool" in t:
        return [Sym("bool"), Sym(t["bool"])]
    if "set" in t:
        return [Sym("set"), Sym("none") if t["set"] is None else [Sym("some"), ty_sx(t["set"])]]
    if "entity" in t:
        if t["entity"] == "any":
            return [Sym("entity"), Sym("any")]
        return [Sym("entity"), [Sym("lub"), [_name(n) for n in t["entity"]]]]
    if "ext" in t:
        return [Sym("ext"), _name(t["ext"])]
    if "record" in t:
        return [Sym("record"), [[Str(k), ty_sx(a), Sym("true" if r else "false")] for k, a, r in t["record"]],
                Sym("true" if t["open"] else "false")]
    raise ValueError(t)


def _prim(p):
    (k, v), = p.items()
    if k == "bool":
        return [Sym("bool"), Sym("true" if v else "false")]
    if k == "long":
        return [Sym("long"), int(v)]
    if k == "string":
        return [Sym("string"), Str(v)]
    return [Sym("entity"), _uid(v)]


def texpr_sx(e, typed=True):
    """typed=True: (t ty node) form for d_texpr; typed=False: plain Codec.d_expr form"""
    n = e["n"]
    k = n[0]
    sub = lambda x: texpr_sx(x, typed)  # noqa: E731
    if k == "lit":
        node = [Sym("lit"), _prim(n[1])]
    elif k in ("var", "slot"):
        node = [Sym(k), Sym(n[1])]
    elif k == "unknown":
        node = [Sym("unknown"), Str(n[1]), Sym("none")]
    elif k == "if":
        node = [Sym("if"), sub(n[1]), sub(n[2]), sub(n[3])]
    elif k in ("and", "or"):
        node = [Sym(k), sub(n[1]), sub(n[2])]
    elif k == "unop":
        node = [Sym("unop"), Sym(n[1]), sub(n[2])]
    elif k == "binop":
        node = [Sym("binop"), Sym(n[1]), sub(n[2]), sub(n[3])]
    elif k == "ext":
        node = [Sym("ext"), _name(n[1]), [sub(a) for a in n[2]]]
    elif k in ("getattr", "hasattr"):
        node = [Sym(k), sub(n[1]), Str(n[2])]
    elif k == "like":
        node = [Sym("like"), sub(n[1]), [Sym("star") if c == "star" else int(c) for c in n[2]]]
    elif k == "is":
        node = [Sym("is"), sub(n[1]), _name(n[2])]
    elif k == "set":
        node = [Sym("set"), [sub(a) for a in n[1]]]
    elif k == "record":
        node = [Sym("record"), [[Str(kk), sub(v)] for kk, v in n[1]]]
    else:
        raise ValueError(n)
    return [Sym("t"), ty_sx(e["t"]), node] if typed else node


def reqenv_sx(env):
    opt = lambda x: Sym("none") if x is None else [Sym("some"), _name(x)]  # noqa: E731
    return [Sym("reqenv"), _name(env["principal"]), _uid(env["action"]), _name(env["resource"]),
            ty_sx(env["context"]), opt(env["principal_slot"]), opt(env["resource_slot"])]
