"""Shared machinery of the checks: builds, runners, proof-obligation audit, evidence, violations."""
import concurrent.futures
import fcntl
import hashlib
import json
import os
import re
import subprocess
import sys
import time

import sx

VERIF = os.path.dirname(os.path.dirname(os.path.abspath(__file__)))
COQ = os.path.join(VERIF, "coq")
BUILD = os.path.join(VERIF, "build")
HARNESS = os.path.join(VERIF, "harness")
EVIDENCE = os.path.join(VERIF, "evidence")
REPLAYS = os.path.join(VERIF, "replays")
WORK = os.path.join(VERIF, ".work")
NPROC = min(16, os.cpu_count() or 4)

ENV = dict(os.environ, CARGO_NET_OFFLINE="true")
ENV.setdefault("RUSTFLAGS", "--cfg cedar_verif")

FORBIDDEN = re.compile(
    r"\b(Admitted|admit|Axiom|Axioms|Parameter|Parameters|Conjecture|Conjectures|Hypothesis|Hypotheses|"
    r"Variable|Variables|Unset\s+Guard|bypass_check|Admit\s+Obligations|type-in-type|impredicative-set)\b")


class InfraError(Exception):
    """a failure of the machinery itself (never attributed to /repo)"""


def sh(cmd, cwd=None, timeout=3600, check=True, env=None):
    p = subprocess.run(cmd, cwd=cwd, shell=isinstance(cmd, str), stdout=subprocess.PIPE,
                       stderr=subprocess.STDOUT, timeout=timeout, env=env or ENV, text=True)
    if check and p.returncode != 0:
        raise InfraError("command failed (%s): %s\n%s" % (p.returncode, cmd, p.stdout[-4000:]))
    return p.stdout


class Lock:
    def __init__(self, name):
        os.makedirs(WORK, exist_ok=True)
        self.path = os.path.join(WORK, name + ".lock")

    def __enter__(self):
        self.f = open(self.path, "w")
        fcntl.flock(self.f, fcntl.LOCK_EX)
        return self

    def __exit__(self, *a):
        fcntl.flock(self.f, fcntl.LOCK_UN)
        self.f.close()


# ------------------------------------------------------------------ builds
def build_coq(targets=None):
    """full .vo build of the Coq development (or the given targets); returns make's output"""
    with Lock("coq"):
        if not os.path.exists(os.path.join(COQ, "Makefile")) or \
                os.path.getmtime(os.path.join(COQ, "Makefile")) < os.path.getmtime(os.path.join(COQ, "_CoqProject")):
            sh("coq_makefile -f _CoqProject -o Makefile", cwd=COQ)
        tgt = " ".join(targets) if targets else ""
        return sh("timeout 3000 make -j%d %s" % (NPROC, tgt), cwd=COQ, timeout=3100)


def build_model_driver():
    with Lock("coq"):
        pass
    build_coq(["extract/Extract.vo"])
    with Lock("ocaml"):
        os.makedirs(BUILD, exist_ok=True)
        srcs = [os.path.join(COQ, "model.ml"), os.path.join(COQ, "model.mli"), os.path.join(COQ, "extract", "driver.ml")]
        exe = os.path.join(BUILD, "model_driver")
        if os.path.exists(exe) and all(os.path.getmtime(exe) >= os.path.getmtime(s) for s in srcs):
            return exe
        for s in srcs:
            sh(["cp", s, BUILD])
        sh("ocamlfind ocamlopt -w -a -O3 model.mli model.ml driver.ml -o model_driver 2>&1 || "
           "ocamlfind ocamlopt -w -a model.mli model.ml driver.ml -o model_driver", cwd=BUILD)
        return exe


REPO = os.environ.get("VERIF_REPO", "/repo")
if REPO != "/repo":
    # mutation self-tests must not overwrite the evidence / replays of the real tree
    EVIDENCE = os.path.join(WORK, "scratch_evidence")
    REPLAYS = os.path.join(WORK, "scratch_replays")


def build_harness():
    """rebuild the Rust harness against the current working tree of /repo (cargo decides what is
       stale).  VERIF_REPO=<dir> (mutation self-tests only) builds a copy of the harness against a
       scratch copy of the repository instead, in its own target directory."""
    with Lock("cargo"):
        hdir = HARNESS
        if REPO != "/repo":
            tag = hashlib.sha256(REPO.encode()).hexdigest()[:10]
            hdir = os.path.join(WORK, "harness_" + tag)
            os.makedirs(hdir, exist_ok=True)
            sh("rsync -a --delete --exclude target %s/ %s/" % (HARNESS, hdir))
            toml = open(os.path.join(hdir, "Cargo.toml")).read().replace('"/repo/', '"%s/' % REPO.rstrip("/"))
            open(os.path.join(hdir, "Cargo.toml"), "w").write(toml)
        lock = os.path.join(hdir, "Cargo.lock")
        if not os.path.exists(lock):
            sh(["cp", os.path.join(REPO, "Cargo.lock"), lock])
        out = sh("cargo build --offline 2>&1", cwd=hdir, timeout=3600, check=False)
        exe = os.path.join(hdir, "target", "debug", "cedar-verif-harness")
        if "Finished" not in out:
            raise InfraError("harness does not build against %s:\n%s" % (REPO, out[-6000:]))
        if not os.path.exists(exe):
            raise InfraError("harness binary missing:\n" + out[-3000:])
        return exe


# ------------------------------------------------------------------ runners
def _run_lines(args):
    exe, lines = args
    p = subprocess.run([exe], input="\n".join(lines) + "\n", stdout=subprocess.PIPE, stderr=subprocess.PIPE,
                       text=True, timeout=3600)
    out = p.stdout.split("\n")
    if out and out[-1] == "":
        out.pop()
    return p.returncode, out, p.stderr[-2000:]


def _sharded(exe, lines, shards=None):
    if not lines:
        return []
    shards = shards or NPROC
    k = max(1, min(shards, (len(lines) + 49) // 50))
    chunks = [lines[i::k] for i in range(k)]
    with concurrent.futures.ThreadPoolExecutor(max_workers=k) as ex:
        results = list(ex.map(_run_lines, [(exe, c) for c in chunks]))
    out = [None] * len(lines)
    for ci, (rc, res, err) in enumerate(results):
        idxs = list(range(ci, len(lines), k))
        if len(res) != len(idxs):
            # the process died (abort / stack overflow): find the first unanswered input
            bad = idxs[len(res)] if len(res) < len(idxs) else None
            for j, r in zip(idxs, res):
                out[j] = r
            for j in idxs[len(res):]:
                out[j] = None
            out.append(("CRASH", bad, rc, err))
            return out
        for j, r in zip(idxs, res):
            out[j] = r
    return out


def run_rust(exe, cmds):
    """cmds: list of JSON-able dicts -> list of dicts (a crashed process yields {'abort': ...})"""
    lines = [json.dumps(c, ensure_ascii=True) for c in cmds]
    raw = _sharded(exe, lines)
    crash = None
    if raw and isinstance(raw[-1], tuple) and raw[-1][0] == "CRASH":
        crash = raw.pop()
    res = []
    for i, r in enumerate(raw):
        if r is None:
            if crash and crash[1] == i:
                res.append({"abort": "process exited with %s: %s" % (crash[2], crash[3])})
            else:
                res.append({"harness_error": "not run (earlier abort in shard)"})
        else:
            res.append(json.loads(r))
    return res


def run_model(exe, sexps):
    lines = [sx.dump(s) for s in sexps]
    raw = _sharded(exe, lines)
    if raw and isinstance(raw[-1], tuple) and raw[-1][0] == "CRASH":
        raise InfraError("model driver crashed: %r" % (raw[-1],))
    return [sx.parse(r) for r in raw]


def coq_crosscheck(sexps, model_out, tag):
    """evaluate the same commands by vm_compute inside coqc and compare with the extracted model"""
    if not sexps:
        return 0
    os.makedirs(WORK, exist_ok=True)
    d = os.path.join(WORK, "cases_%s_%d" % (tag, os.getpid()))      # per process: concurrent checks must not share the file
    os.makedirs(d, exist_ok=True)
    path = os.path.join(d, "cases.v")
    with open(path, "w") as f:
        f.write("From Coq Require Import String List ZArith NArith.\nImport ListNotations.\n")
        f.write("From Cedar Require Import RunAll.\nOpen Scope string_scope.\n")
        f.write("Definition cases : list sexp := [\n")
        f.write(";\n".join(sx.to_coq(s) for s in sexps))
        f.write("].\nDefinition expected : list sexp := [\n")
        f.write(";\n".join(sx.to_coq(s) for s in model_out))
        f.write("].\n")
        f.write("""Fixpoint sexp_eqb (a b : sexp) : bool :=
  match a, b with
  | SI x, SI y => Z.eqb x y
  | SS x, SS y => str_eqb x y
  | SY x, SY y => String.eqb x y
  | SL x, SL y => (fix go (l m : list sexp) : bool :=
                     match l, m with
                     | [], [] => true
                     | p :: l', q :: m' => sexp_eqb p q && go l' m'
                     | _, _ => false
                     end) x y
  | _, _ => false
  end.
Definition verdict : list bool := map (fun ce => sexp_eqb (run (fst ce)) (snd ce)) (combine cases expected).
Eval vm_compute in (forallb (fun b => b) verdict, length verdict).
""")
    out = sh("timeout 600 coqc -noglob -Q model Cedar %s" % path, cwd=COQ, timeout=700)
    m = re.search(r"=\s*\((true|false),\s*(\d+)(?:%nat)?\)", out)
    if not m:
        raise InfraError("vm_compute cross-check produced no verdict:\n" + out[-2000:])
    if m.group(1) != "true" or int(m.group(2)) != len(sexps):
        raise InfraError("extraction cross-check FAILED (extracted OCaml and vm_compute disagree): " + out[-2000:])
    import shutil
    shutil.rmtree(d, ignore_errors=True)
    return len(sexps)


# ------------------------------------------------------------------ proof obligations
def audit_sources():
    """no Admitted/Axiom/... anywhere in the development"""
    bad = []
    for root, _, files in os.walk(COQ):
        for fn in files:
            if fn.endswith(".v"):
                p = os.path.join(root, fn)
                if os.sep + ".work" in p:
                    continue
                txt = open(p).read()
                # strip comments
                txt_nc = re.sub(r"\(\*.*?\*\)", "", txt, flags=re.S)
                for m in FORBIDDEN.finditer(txt_nc):
                    word = m.group(1)
                    # `Variable`/`Hypothesis` are allowed inside a Section only
                    if word in ("Variable", "Variables", "Hypothesis", "Hypotheses"):
                        pre = txt_nc[:m.start()]
                        if len(re.findall(r"^\s*Section\s", pre, flags=re.M)) > len(re.findall(r"^\s*End\s", pre, flags=re.M)):
                            continue
                    bad.append("%s: %s" % (os.path.relpath(p, VERIF), word))
    return bad


ALLOWED_AXIOMS = set()

PINS = os.path.join(COQ, "props", "pins.json")


def theorem_statements(prop_file):
    """statement text (whitespace-normalised, comments stripped) of every Theorem/Corollary/Lemma of a props file"""
    src = open(os.path.join(COQ, "props", prop_file + ".v")).read()
    src = re.sub(r"\(\*.*?\*\)", " ", src, flags=re.S)
    out = {}
    for m in re.finditer(r"\b(?:Theorem|Corollary|Lemma)\s+([A-Za-z0-9_']+)(.*?)\bProof\s*\.", src, flags=re.S):
        out[m.group(1)] = " ".join(m.group(2).split())
    return out


def check_pins(prop_file, theorems):
    """the statement of every claimed theorem must be the one pinned in props/pins.json (regenerated deliberately with
       tools/gen_pins.py and committed): a statement cannot be weakened without a visible change of that file"""
    if not os.path.exists(PINS):
        return []
    pins = json.load(open(PINS)).get(prop_file, {})
    stmts = theorem_statements(prop_file)
    bad = []
    for t in theorems:
        if t not in stmts:
            bad.append("theorem %s is not stated in props/%s.v" % (t, prop_file))
        elif t not in pins:
            bad.append("theorem %s has no pinned statement (run tools/gen_pins.py)" % t)
        elif pins[t] != hashlib.sha256(stmts[t].encode()).hexdigest():
            bad.append("the statement of theorem %s differs from its pin in props/pins.json" % t)
    return bad


def check_props(prop_file, theorems, tier="quick"):
    """(re)compile props/<prop_file>.v, parse its Print Assumptions transcript (and, in the
       thorough tier, run coqchk on it).  returns (obligations, discharged, details, failures)"""
    failures = []
    vo = os.path.join(COQ, "props", prop_file + ".vo")
    with Lock("coq"):
        if os.path.exists(vo):
            os.remove(vo)
        if not os.path.exists(os.path.join(COQ, "Makefile")) or \
                os.path.getmtime(os.path.join(COQ, "Makefile")) < os.path.getmtime(os.path.join(COQ, "_CoqProject")):
            sh("coq_makefile -f _CoqProject -o Makefile", cwd=COQ)
        out = sh("timeout 2400 make -j%d props/%s.vo" % (NPROC, prop_file), cwd=COQ, timeout=2500, check=False)
    if not os.path.exists(vo):
        return len(theorems), 0, {}, ["props/%s.v does not compile: %s" % (prop_file, out[-1500:])]
    # transcript: after each `Print Assumptions thm.` Coq prints either
    # "Closed under the global context" or "Axioms:\n name : type ..."
    blocks = re.split(r"(?=Closed under the global context|Axioms:)", out)
    verdicts = [b for b in blocks if b.startswith("Closed under") or b.startswith("Axioms:")]
    src = open(os.path.join(COQ, "props", prop_file + ".v")).read()
    printed = re.findall(r"Print Assumptions\s+([A-Za-z0-9_']+)\s*\.", src)
    # obligations: every theorem the module claims plus every theorem the props file prints assumptions for
    theorems = list(dict.fromkeys(list(theorems) + printed))
    details = {}
    for thm, v in zip(printed, verdicts):
        if v.startswith("Closed under"):
            details[thm] = []
        else:
            axs = re.findall(r"^\s*([A-Za-z0-9_'.]+)\s*:", v[len("Axioms:"):], flags=re.M)
            details[thm] = axs
    discharged = 0
    for t in theorems:
        if t not in details:
            failures.append("theorem %s has no Print Assumptions transcript" % t)
        elif any(a not in ALLOWED_AXIOMS for a in details[t]):
            failures.append("theorem %s depends on axioms %s" % (t, details[t]))
        else:
            discharged += 1
    bad = audit_sources()
    if bad:
        failures.append("forbidden vernacular in sources: " + "; ".join(bad[:10]))
        discharged = 0
    failures.extend(check_pins(prop_file, theorems))
    if tier == "thorough" or os.environ.get("VERIF_TIER") == "thorough":
        ok, summary = coqchk(prop_file)
        details["coqchk"] = summary
        if not ok:
            failures.append("coqchk: " + summary)
            discharged = 0
    return len(theorems), discharged, details, failures


def coqchk(prop_file):
    """thorough tier: re-check the compiled property file and everything it depends on with the
       independent checker; returns (ok, axioms_text)"""
    with Lock("coq"):
        out = sh("timeout 3000 coqchk -o -silent -Q model Cedar -Q proofs Cedar -Q props Cedar Cedar.%s 2>&1" % prop_file,
                 cwd=COQ, timeout=3100, check=False)
    m = re.search(r"\* Axioms:\s*(.*?)\n\s*\n\* Constants/Inductives relying on type-in-type:\s*(.*?)\n\s*\n"
                  r"\* Constants/Inductives relying on unsafe \(co\)fixpoints:\s*(.*?)\n\s*\n"
                  r"\* Inductives whose positivity is assumed:\s*(.*?)\n", out, flags=re.S)
    if not m:
        return False, "coqchk produced no context summary: " + out[-1500:]
    fields = [x.strip() for x in m.groups()]
    ok = all(f == "<none>" for f in fields)
    return ok, "axioms=%s type-in-type=%s unsafe-fix=%s assumed-positivity=%s" % tuple(fields)


# ------------------------------------------------------------------ evidence / violations
def case_hash(obj):
    return hashlib.sha256(json.dumps(obj, sort_keys=True, default=repr).encode()).hexdigest()[:16]


def write_replay(prop, payload):
    d = os.path.join(REPLAYS, prop)
    os.makedirs(d, exist_ok=True)
    h = case_hash(payload)
    p = os.path.join(d, h + ".json")
    with open(p, "w") as f:
        json.dump(payload, f, indent=1, default=repr, sort_keys=True)
    return p


def load_known_findings():
    p = os.path.join(VERIF, "known_findings.json")
    if not os.path.exists(p):
        return []
    return json.load(open(p))


def write_evidence(prop, tier, seed, coverage, assumptions, wall, violations, level="proof"):
    os.makedirs(EVIDENCE, exist_ok=True)
    ev = {"property_id": prop, "tier": tier, "seed": seed, "level": level, "coverage": coverage,
          "assumptions": assumptions, "wall_s": round(wall, 2), "violations": violations}
    with open(os.path.join(EVIDENCE, prop + ".json"), "w") as f:
        json.dump(ev, f, indent=1, default=repr)


TRUSTED_BASE = [
    "Coq 8.16.1 kernel (coqc; vm_compute used in Examples and in the cases.v cross-check; no native_compute)",
    "axioms: none (Print Assumptions of every property theorem must read 'Closed under the global context')",
    "extraction: ExtrOcamlBasic only (bool/option/unit/list/prod/sumbool/sumor mapped to OCaml), no Extract Constant; OCaml 4.13.1; hand-written driver.ml (S-expression reader/printer), cross-checked against vm_compute",
    "correspondence: Rust harness renderers (/verif/harness) and Python generators/comparators (/verif/vp)",
    "everything in /repo is modelled, not verified directly; third-party crates (regex, chrono, std::net, serde_json, lalrpop, logos, pretty, prost) are modelled by their used contract",
]


class Report:
    """collects the outcome of one check run and produces exit status + VIOLATION lines"""

    def __init__(self, prop, tier, seed):
        self.prop, self.tier, self.seed = prop, tier, seed
        self.t0 = time.time()
        self.violations = []       # (replay_path, suffix)
        self.known_lines = []
        self.coverage = {}
        self.assumptions = []
        self.known = [k for k in load_known_findings() if k.get("property") == prop]
        d = os.path.join(REPLAYS, prop)
        if os.path.isdir(d):
            for fn in os.listdir(d):
                if fn.endswith(".json"):
                    os.remove(os.path.join(d, fn))

    def match_known(self, key):
        for k in self.known:
            if k.get("status") == "known" and k.get("key") == key:
                return k
        return None

    def violation(self, payload, no_failing_input=False, key=None):
        if key is not None:
            k = self.match_known(key)
            if k is not None:
                line = "KNOWN-FINDING: property=%s %s" % (self.prop, k.get("description", key))
                if line not in self.known_lines:
                    self.known_lines.append(line)
                return
        path = write_replay(self.prop, payload)
        self.violations.append((path, " no-failing-input-found" if no_failing_input else ""))

    def finish(self, level="proof"):
        wall = time.time() - self.t0
        write_evidence(self.prop, self.tier, self.seed, self.coverage, self.assumptions, wall,
                       len(self.violations), level)
        for line in self.known_lines:
            print(line)
        seen = set()
        for path, suffix in self.violations:
            if path in seen:
                continue
            seen.add(path)
            print("VIOLATION property=%s replay=%s%s" % (self.prop, path, suffix))
        sys.stdout.flush()
        return 1 if self.violations else 0


# ------------------------------------------------------------------ generic replay
def _find_cmds(obj, out):
    if isinstance(obj, dict):
        if isinstance(obj.get("cmd"), str):
            out.append(obj)
            return
        for v in obj.values():
            _find_cmds(v, out)
    elif isinstance(obj, list):
        for v in obj:
            _find_cmds(v, out)


def replay_generic(rep, path):
    """re-run every harness command recorded in a replay file against the CURRENT /repo and report
       whether the recorded implementation behaviour reproduces (VIOLATION again) or not"""
    payload = json.load(open(path))
    cmds = []
    _find_cmds(payload, cmds)
    print("replay of %s: kind=%r, %d recorded harness command(s)" % (path, payload.get("kind"), len(cmds)))
    if not cmds:
        print(json.dumps(payload, indent=1, default=repr)[:6000])
        return
    harness = build_harness()
    res = run_rust(harness, cmds)
    recorded = payload.get("rust")
    for c, r in zip(cmds, res):
        print("COMMAND " + json.dumps(c)[:3000])
        print("NOW     " + json.dumps(r)[:3000])
    if recorded is not None:
        print("RECORDED " + json.dumps(recorded)[:3000])
        same = any(json.dumps(r, sort_keys=True) == json.dumps(recorded, sort_keys=True) for r in res)
        print("the recorded failing behaviour %s on the current tree" % ("REPRODUCES" if same else "does NOT reproduce"))
        if same:
            rep.violation(payload)
