"""C06 generators: surface policies (text + EST JSON renderings), JSON trees with duplicate keys, mutations.

   Surface expressions extend the cedar.py AST with forms that exist only in the concrete / JSON syntax:
     ('haschain', e, [a, b, ...])   e has a.b.c          JSON has/attr list
     ('isin', e, ty, e2)            e is T in e2         JSON is/in
     ('neq'|'gt'|'ge', a, b)        != > >=              JSON "!=" ">" ">="
     ('value', cedar-value)         JSON-only {"Value": <cedar value json>}
"""
import json

import cedar
import gen
from cedar import str_lit, type_text, uid_text, uid_json

ANN_KEYS = ["id", "a", "if", "in", "permit", "_x", "A1", "like", "principal"]
ANN_VALS = ["", "x", "a b", 'q"\\', "\u0000", "\U0001F600", "*", "\n", "é"]
REC_KEYS = ["__entity", "__extn", "__expr", "if", "", "a b", "n", "s", "\U0001F600", 'q"', "type", "id", "fn", "arg"]


# ------------------------------------------------------------------ text
def stext(e):
    k = e[0]
    if k in ("lit", "var", "slot"):
        if k == "lit" and e[1][0] == "long" and e[1][1] < 0:
            return str(e[1][1])
        return cedar.expr_text(e)
    if k == "if":
        return "(if %s then %s else %s)" % (stext(e[1]), stext(e[2]), stext(e[3]))
    if k == "and":
        return "(%s && %s)" % (stext(e[1]), stext(e[2]))
    if k == "or":
        return "(%s || %s)" % (stext(e[1]), stext(e[2]))
    if k == "unop":
        a = stext(e[2])
        return {"not": "(!(%s))", "neg": "(-(%s))", "isEmpty": "((%s).isEmpty())"}[e[1]] % a
    if k == "binop":
        a, b = stext(e[2]), stext(e[3])
        if e[1] in cedar.BINOP_TEXT:
            return "((%s) %s (%s))" % (a, cedar.BINOP_TEXT[e[1]], b)
        return "((%s).%s(%s))" % (a, e[1], b)
    if k in ("neq", "gt", "ge"):
        return "((%s) %s (%s))" % (stext(e[1]), {"neq": "!=", "gt": ">", "ge": ">="}[k], stext(e[2]))
    if k == "ext":
        fn, args = e[1], [stext(a) for a in e[2]]
        if fn in cedar.METHOD_EXT:
            if not args:
                raise cedar.NotExpressible("method without receiver")
            return "((%s).%s(%s))" % (args[0], fn, ", ".join(args[1:]))
        if fn in cedar.FUNC_EXT:
            return "%s(%s)" % (fn, ", ".join(args))
        raise cedar.NotExpressible("unknown function")
    if k == "getattr":
        if cedar.is_ident(e[2]):
            return "((%s).%s)" % (stext(e[1]), e[2])
        return "((%s)[%s])" % (stext(e[1]), str_lit(e[2]))
    if k == "hasattr":
        return "((%s) has %s)" % (stext(e[1]), e[2] if cedar.is_ident(e[2]) else str_lit(e[2]))
    if k == "haschain":
        if not all(cedar.is_ident(a) for a in e[2]):
            raise cedar.NotExpressible("has-chain needs identifiers")
        return "((%s) has %s)" % (stext(e[1]), ".".join(e[2]))
    if k == "like":
        return "((%s) like %s)" % (stext(e[1]), cedar.pattern_text(e[2]))
    if k == "is":
        return "((%s) is %s)" % (stext(e[1]), type_text(e[2]))
    if k == "isin":
        return "((%s) is %s in (%s))" % (stext(e[1]), type_text(e[2]), stext(e[3]))
    if k == "set":
        return "[" + ", ".join(stext(a) for a in e[1]) + "]"
    if k == "record":
        return "{" + ", ".join("%s: %s" % (str_lit(kk), stext(v)) for kk, v in e[1]) + "}"
    raise cedar.NotExpressible(k)


# ------------------------------------------------------------------ EST JSON (python dicts)
def sest(e):
    k = e[0]
    if k in ("lit", "var", "slot"):
        return cedar.expr_est(e)
    if k == "value":
        return {"Value": cedar.value_json(e[1])}
    if k == "if":
        return {"if-then-else": {"if": sest(e[1]), "then": sest(e[2]), "else": sest(e[3])}}
    if k in ("and", "or"):
        return {"&&" if k == "and" else "||": {"left": sest(e[1]), "right": sest(e[2])}}
    if k == "unop":
        return {{"not": "!", "neg": "neg", "isEmpty": "isEmpty"}[e[1]]: {"arg": sest(e[2])}}
    if k == "binop":
        return {cedar.BINOP_EST[e[1]]: {"left": sest(e[2]), "right": sest(e[3])}}
    if k in ("neq", "gt", "ge"):
        return {{"neq": "!=", "gt": ">", "ge": ">="}[k]: {"left": sest(e[1]), "right": sest(e[2])}}
    if k == "ext":
        return {e[1]: [sest(a) for a in e[2]]}
    if k == "getattr":
        return {".": {"left": sest(e[1]), "attr": e[2]}}
    if k == "hasattr":
        return {"has": {"left": sest(e[1]), "attr": e[2]}}
    if k == "haschain":
        return {"has": {"left": sest(e[1]), "attr": list(e[2])}}
    if k == "like":
        # adjacent literal characters are merged into one Literal element half of the time by the caller
        return {"like": {"left": sest(e[1]),
                         "pattern": ["Wildcard" if c == ("*",) else {"Literal": c} for c in e[2]]}}
    if k == "is":
        return {"is": {"left": sest(e[1]), "entity_type": type_text(e[2])}}
    if k == "isin":
        return {"is": {"left": sest(e[1]), "entity_type": type_text(e[2]), "in": sest(e[3])}}
    if k == "set":
        return {"Set": [sest(a) for a in e[1]]}
    if k == "record":
        return {"Record": {kk: sest(v) for kk, v in e[1]}}
    raise ValueError(e)


def ops(e, acc):
    if not isinstance(e, tuple) or not e or not isinstance(e[0], str):
        return
    k = e[0]
    tag = k + ":" + e[1] if k in ("unop", "binop", "ext") else k
    acc[tag] = acc.get(tag, 0) + 1
    if k == "value":
        return
    for x in e[1:]:
        if isinstance(x, tuple):
            ops(x, acc)
        elif isinstance(x, list):
            for y in x:
                if k == "record":
                    ops(y[1], acc)
                elif isinstance(y, tuple) and y and isinstance(y[0], str) and len(y) > 1:
                    ops(y, acc)


# ------------------------------------------------------------------ surface expressions
class SurfaceGen(gen.ExprGen):
    """ExprGen + the surface-only forms, all extension types, odd record keys"""

    def gen_bool(self, depth):
        r = self.r
        d = depth - 1
        c = r.random()
        if c < 0.07:
            n = r.randint(1, 4)
            return ("haschain", self.entity_with_attr(depth), [r.choice(["a", "b", "rec", "n", "_x", "c1"]) for _ in range(n)])
        if c < 0.13:
            return ("isin", self.gen("entity", d), r.choice(gen.TYPES),
                    self.gen("entity", d) if r.random() < 0.6 else self.gen_set(d, "entity"))
        if c < 0.17:
            k = r.choice(self.KINDS)
            return ("neq", self.gen(k, d), self.gen(k, d))
        if c < 0.23:
            return (r.choice(["gt", "ge"]), self.gen("long", d), self.gen("long", d))
        if c < 0.30:
            fn = r.choice(["isIpv4", "isIpv6", "isLoopback", "isMulticast"])
            return ("ext", fn, [self.gen_ip()])
        if c < 0.33:
            return ("ext", "isInRange", [self.gen_ip(), self.gen_ip()])
        return super().gen_bool(depth)

    def gen_ip(self):
        return ("ext", "ip", [("lit", ("string", self.r.choice(["1.2.3.4", "::1", "10.0.0.0/8", "ff00::/8", "x", "127.0.0.1/33"])))])

    def gen_ext(self, depth):
        r = self.r
        c = r.random()
        if c < 0.2:
            return self.gen_ip()
        if c < 0.35:
            return ("ext", "datetime", [("lit", ("string", r.choice(["2024-01-01", "2024-01-01T10:00:00Z", "1970-01-01T00:00:00.001+0100", "bad"])))])
        if c < 0.5:
            return ("ext", "duration", [("lit", ("string", r.choice(["1h", "-2d3h", "1ms", "5m10s", "bad"])))])
        if c < 0.6:
            return ("ext", r.choice(["offset", "durationSince"]), [self.gen_ext(depth - 1), self.gen_ext(depth - 1)])
        if c < 0.65:
            return ("ext", "toDate", [self.gen_ext(depth - 1)])
        return super().gen_ext(depth)

    def gen_long(self, depth):
        r = self.r
        if r.random() < 0.1:
            return ("ext", r.choice(["toMilliseconds", "toSeconds", "toMinutes", "toHours", "toDays"]), [self.gen_ext(depth - 1)])
        return super().gen_long(depth)

    def gen_record(self, depth):
        r = self.r
        if r.random() < 0.35:
            keys = sorted(r.sample(REC_KEYS, r.choice([1, 1, 2, 3])))
            return ("record", [(k, self.gen(None, depth - 1)) for k in keys])
        return super().gen_record(depth)


# ------------------------------------------------------------------ policies
def gen_cons(rng, w, slot_ok):
    c = rng.random()
    ref = "slot" if (slot_ok and rng.random() < 0.7) else rng.choice(w.uids)
    if c < 0.25:
        return ("any",)
    if c < 0.45:
        return ("eq", ref)
    if c < 0.65:
        return ("in", ref)
    if c < 0.8:
        return ("is", rng.choice(gen.TYPES[:3]))
    return ("isin", rng.choice(gen.TYPES[:3]), ref)


def gen_policy(rng, w, template=False, pid="p0", depth=4):
    g = SurfaceGen(w, rng, allow_slots=False)
    ann = []
    for k in rng.sample(ANN_KEYS, rng.choice([0, 0, 1, 2, 3])):
        ann.append((k, None if rng.random() < 0.15 else rng.choice(ANN_VALS)))
    c = rng.random()
    if c < 0.3:
        act = ("any",)
    elif c < 0.6:
        act = ("eq", rng.choice(w.actions))
    else:
        act = ("in", [rng.choice(w.actions) for _ in range(rng.choice([0, 1, 1, 2, 3]))])
    pc = gen_cons(rng, w, template)
    rc = gen_cons(rng, w, template)
    if template and "slot" not in pc and "slot" not in rc:
        pc = ("eq", "slot")
    conds = []
    for _ in range(rng.choice([0, 1, 1, 1, 2, 3])):
        conds.append((rng.choice(["when", "when", "unless"]), g.gen("bool", rng.randint(1, depth))))
    return {"id": pid, "effect": rng.choice(["permit", "forbid"]), "principal": pc, "action": act, "resource": rc,
            "conds": conds, "annotations": ann, "single_form": rng.random() < 0.5}


def policy_text(p):
    ann = "".join(("@%s\n" % k) if v is None else ("@%s(%s)\n" % (k, str_lit(v))) for k, v in p["annotations"])
    conds = "".join(" %s { %s }" % (k, stext(e)) for k, e in p["conds"])
    return "%s%s(%s, %s, %s)%s;" % (ann, p["effect"], cedar.cons_text(p["principal"], "principal"),
                                     cedar.acons_text(p["action"], p.get("single_form", False)),
                                     cedar.cons_text(p["resource"], "resource"), conds)


def cons_est(c, var, rng=None):
    def ref(r):
        if r == "slot":
            return {"slot": "?" + var}
        if rng is not None and rng.random() < 0.3:
            return {"entity": {"__entity": uid_json(r)}}
        return {"entity": uid_json(r)}
    if c[0] == "any":
        return {"op": "all" if (rng is not None and rng.random() < 0.3) else "All"}
    if c[0] in ("eq", "in"):
        return dict({"op": "==" if c[0] == "eq" else "in"}, **ref(c[1]))
    if c[0] == "is":
        return {"op": "is", "entity_type": type_text(c[1])}
    return {"op": "is", "entity_type": type_text(c[1]), "in": ref(c[2])}


def acons_est(c, rng=None):
    if c[0] == "any":
        return {"op": "All"}
    if c[0] == "eq":
        return {"op": "==", "entity": uid_json(c[1])}
    if len(c[1]) == 1 and rng is not None and rng.random() < 0.5:
        return {"op": "in", "entity": uid_json(c[1][0])}
    return {"op": "in", "entities": [uid_json(u) for u in c[1]]}


def merge_like(j, rng):
    """merge adjacent Literal pattern elements (JSON allows multi-character literals)"""
    if isinstance(j, dict):
        if "like" in j and isinstance(j["like"], dict) and "pattern" in j["like"] and rng.random() < 0.5:
            out = []
            for el in j["like"]["pattern"]:
                if isinstance(el, dict) and out and isinstance(out[-1], dict) and rng.random() < 0.7:
                    out[-1] = {"Literal": out[-1]["Literal"] + el["Literal"]}
                else:
                    out.append(el)
            j["like"]["pattern"] = out
        for v in j.values():
            merge_like(v, rng)
    elif isinstance(j, list):
        for v in j:
            merge_like(v, rng)


def policy_est(p, rng=None):
    j = {"effect": p["effect"], "principal": cons_est(p["principal"], "principal", rng),
         "action": acons_est(p["action"], rng), "resource": cons_est(p["resource"], "resource", rng),
         "conditions": [{"kind": k, "body": sest(e)} for k, e in p["conds"]]}
    if p["annotations"] or (rng is not None and rng.random() < 0.2):
        j["annotations"] = {k: v for k, v in p["annotations"]}
    if rng is not None:
        merge_like(j, rng)
    return j


def requests_for(rng, w, n=5):
    out = []
    for _ in range(n):
        out.append({"principal": rng.choice(w.uids), "action": rng.choice(w.actions),
                    "resource": rng.choice(w.uids), "context": w.gen_attrs()})
    return [cedar.request_json(q) for q in out]


# ------------------------------------------------------------------ JSON trees (objects as pair lists: duplicate keys possible)
def tree(j):
    if j is None:
        return ("null",)
    if isinstance(j, bool):
        return ("bool", j)
    if isinstance(j, int):
        return ("int", j)
    if isinstance(j, str):
        return ("str", j)
    if isinstance(j, list):
        return ("arr", [tree(x) for x in j])
    if isinstance(j, dict):
        return ("obj", [(k, tree(v)) for k, v in j.items()])
    raise ValueError(j)


def tree_text(t):
    k = t[0]
    if k == "null":
        return "null"
    if k == "bool":
        return "true" if t[1] else "false"
    if k == "int":
        return str(t[1])
    if k == "str":
        return json.dumps(t[1])
    if k == "arr":
        return "[" + ",".join(tree_text(x) for x in t[1]) + "]"
    return "{" + ",".join(json.dumps(kk) + ":" + tree_text(v) for kk, v in t[1]) + "}"


def tree_sx(t):
    from sx import Sym, Str
    k = t[0]
    if k == "null":
        return [Sym("null")]
    if k == "bool":
        return [Sym("bool"), Sym("true" if t[1] else "false")]
    if k == "int":
        return [Sym("int"), t[1]]
    if k == "str":
        return [Sym("str"), Str(t[1])]
    if k == "arr":
        return [Sym("arr"), [tree_sx(x) for x in t[1]]]
    return [Sym("obj"), [[Str(kk), tree_sx(v)] for kk, v in t[1]]]


def paths(t, pre=()):
    """all node paths of a tree"""
    out = [pre]
    if t[0] == "arr":
        for i, x in enumerate(t[1]):
            out.extend(paths(x, pre + (i,)))
    elif t[0] == "obj":
        for i, (_, v) in enumerate(t[1]):
            out.extend(paths(v, pre + (i,)))
    return out


def get_at(t, path):
    for i in path:
        t = t[1][i] if t[0] == "arr" else t[1][i][1]
    return t


def set_at(t, path, new):
    if not path:
        return new
    i = path[0]
    if t[0] == "arr":
        items = list(t[1])
        items[i] = set_at(items[i], path[1:], new)
        return ("arr", items)
    items = list(t[1])
    items[i] = (items[i][0], set_at(items[i][1], path[1:], new))
    return ("obj", items)


KEY_POOL = ["Value", "Var", "Slot", "!", "neg", "==", "!=", "in", "<", "<=", ">", ">=", "&&", "||", "+", "-", "*",
            "contains", "containsAll", "containsAny", "isEmpty", "getTag", "hasTag", ".", "has", "like", "is",
            "if-then-else", "Set", "Record", "decimal", "ip", "isIpv4", "lessThan", "unknown", "foo", "value", "not",
            "left", "right", "arg", "attr", "pattern", "entity_type", "if", "then", "else", "op", "entity", "entities",
            "slot", "kind", "body", "effect", "principal", "action", "resource", "conditions", "annotations",
            "__entity", "__extn", "__expr", "type", "id", "fn", "args", "Literal", "Wildcard"]
ATOM_POOL = [("null",), ("bool", True), ("int", 0), ("int", 2 ** 63), ("int", -2 ** 63 - 1), ("int", 2 ** 63 - 1),
             ("str", ""), ("str", "?principal"), ("str", "?resource"), ("str", "?foo"), ("str", "principal"),
             ("str", "User"), ("str", "A::"), ("str", " User"), ("str", "1x"), ("str", "Action"), ("str", "when"),
             ("str", "When"), ("str", "All"), ("str", "all"), ("str", "permit"), ("str", "Permit"), ("str", "Wildcard"),
             ("arr", []), ("obj", []), ("obj", [("Value", ("int", 1))]), ("obj", [("Slot", ("str", "?principal"))]),
             ("obj", [("Var", ("str", "context"))]),
             ("obj", [("__entity", ("obj", [("type", ("str", "User")), ("id", ("str", "a"))]))]),
             ("obj", [("__extn", ("obj", [("fn", ("str", "decimal")), ("arg", ("str", "1.5"))]))]),
             ("obj", [("__extn", ("obj", [("fn", ("str", "isIpv4")), ("args", ("arr", []))]))]),
             ("obj", [("__extn", ("obj", [("fn", ("str", "decimal"))]))]),
             ("obj", [("__entity", ("obj", [("type", ("str", "User"))]))]),
             ("obj", [("__expr", ("str", "1"))]),
             ("obj", [("type", ("str", "User")), ("id", ("str", "a"))]),
             ("obj", [("type", ("str", "Action")), ("id", ("str", "view"))])]


def mutate(t, rng):
    """one structure-aware mutation; returns (tree, kind)"""
    ps = paths(t)
    for _ in range(20):
        p = rng.choice(ps)
        node = get_at(t, p)
        c = rng.randint(0, 9)
        if node[0] == "obj" and node[1]:
            items = list(node[1])
            i = rng.randrange(len(items))
            if c == 0:
                del items[i]
                return set_at(t, p, ("obj", items)), "delete_key"
            if c == 1:
                items.insert(rng.randint(0, len(items)), items[i])
                return set_at(t, p, ("obj", items)), "duplicate_key"
            if c == 2:
                items.insert(rng.randint(0, len(items)), (rng.choice(KEY_POOL), rng.choice(ATOM_POOL)))
                return set_at(t, p, ("obj", items)), "extra_key"
            if c == 3:
                items[i] = (rng.choice(KEY_POOL), items[i][1])
                return set_at(t, p, ("obj", items)), "rename_key"
            if c == 4 and len(items) > 1:
                rng.shuffle(items)
                return set_at(t, p, ("obj", items)), "reorder_keys"
        if node[0] == "arr":
            items = list(node[1])
            if c == 5 and items:
                del items[rng.randrange(len(items))]
                return set_at(t, p, ("arr", items)), "arity_minus"
            if c == 6:
                items.insert(rng.randint(0, len(items)), rng.choice(ATOM_POOL))
                return set_at(t, p, ("arr", items)), "arity_plus"
        if c == 7:
            return set_at(t, p, rng.choice(ATOM_POOL)), "replace_atom"
        if c == 8 and p:
            other = get_at(t, rng.choice(ps))
            return set_at(t, p, other), "graft"
        if c == 9 and node[0] == "str":
            return set_at(t, p, ("str", rng.choice(["", node[1] + " ", node[1].lower(), node[1].upper(), "?" + node[1], node[1] + "::"]))), "string_edit"
    return t, "none"


def has_dup(t):
    if t[0] == "arr":
        return any(has_dup(x) for x in t[1])
    if t[0] == "obj":
        ks = [k for k, _ in t[1]]
        return len(set(ks)) != len(ks) or any(has_dup(v) for _, v in t[1])
    return False


def dup_in_ignored_region(t):
    """duplicate keys inside a scope constraint or a link's `values`: serde buffers these objects (internally tagged /
       untagged enums) and never looks into fields it ignores, so duplicates there are not always rejected; the model's
       blanket rule (json_nodup) is not claimed faithful for such documents -> filtered on generation"""
    if t[0] == "arr":
        return any(dup_in_ignored_region(x) for x in t[1])
    if t[0] == "obj":
        for k, v in t[1]:
            if k in ("principal", "action", "resource", "values"):
                if has_dup(v):
                    return True
            elif dup_in_ignored_region(v):
                return True
    return False
